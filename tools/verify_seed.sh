#!/bin/bash
# tools/verify_seed.sh <PID> <i> : confirm an incoming seeded change in a scratch worktree:
#   demo passes on the clean tree, fails with the patch, and the repository's suite still passes with the patch.
# On success the change is kept as seeded/<PID>-<i>/ (patch.diff, demo.py, meta.json with what was run).
set -u
P="$1"; I="$2"
IN=/verif/seeded/_incoming/$P
W=/tmp/seedv/$P-$I
rm -rf "$W"; mkdir -p /tmp/seedv
git -C /repo worktree add -q "$W" HEAD || exit 2
cd "$W"
run() { PYTHONPATH="$W" JAX_PLATFORMS=cpu timeout 900 /venv/bin/python "$@"; }
run "$IN/demo$I.py" > /tmp/seedv/$P-$I.clean.log 2>&1; rc_clean=$?
git apply "$IN/patch$I.diff"; rc_apply=$?
run "$IN/demo$I.py" > /tmp/seedv/$P-$I.patched.log 2>&1; rc_patched=$?
PYTHONPATH="$W" JAX_PLATFORMS=cpu timeout 3000 /venv/bin/python -m pytest -q -p no:cacheprovider -x --deselect tests/test_nonlinear_funs.py::TestGradientNormAdditional::test_2d > /tmp/seedv/$P-$I.suite.log 2>&1; rc_suite=$?
summary=$(tail -1 /tmp/seedv/$P-$I.suite.log)
cd /
git -C /repo worktree remove --force "$W"
ok=false
if [ $rc_clean = 0 ] && [ $rc_apply = 0 ] && [ $rc_patched != 0 ] && [ $rc_suite = 0 ]; then ok=true; fi
D=/verif/seeded/$P-$I
if $ok; then
  mkdir -p "$D"; cp "$IN/patch$I.diff" "$D/patch.diff"; cp "$IN/demo$I.py" "$D/demo.py"
  /venv/bin/python - "$IN/meta$I.json" "$D/meta.json" "$summary" "$rc_patched" <<'PY'
import json, sys
m = json.load(open(sys.argv[1]))
out = {"breaks_property": m.get("property"), "summary": m.get("summary"), "needs_to_manifest": m.get("needs_to_manifest"),
       "files_changed": m.get("files_changed"),
       "confirmed": {"demo_exit_clean": 0, "demo_exit_with_patch": int(sys.argv[4]),
                     "suite_with_patch": sys.argv[3],
                     "how": "tools/verify_seed.sh: scratch worktree of /repo HEAD under /tmp/seedv, demo on clean tree, git apply, demo again, full pytest (-x, the baseline-failing float32 test TestGradientNormAdditional::test_2d deselected)"},
       "detected_by": []}
json.dump(out, open(sys.argv[2], "w"), indent=1)
PY
fi
echo "VERIFY $P-$I clean=$rc_clean apply=$rc_apply patched=$rc_patched suite=$rc_suite [$summary] kept=$ok"
rm -f /tmp/seedv/$P-$I.clean.log /tmp/seedv/$P-$I.patched.log
$ok && rm -f /tmp/seedv/$P-$I.suite.log
exit 0
