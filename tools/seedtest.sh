#!/bin/bash
# tools/seedtest.sh <patch.diff> <CHECK_ID>...   : apply a seeded change to /repo, run the quick checks, undo it
set -u
patch="$(readlink -f "$1")"; shift
if ! git -C /repo diff --quiet; then echo "/repo has uncommitted changes; refusing"; exit 2; fi
git -C /repo apply "$patch" || { echo "patch does not apply"; exit 2; }
trap 'git -C /repo checkout -- . ; find /repo/exponax -name __pycache__ -prune -exec rm -rf {} + 2>/dev/null' EXIT
for c in "$@"; do
  out=$(/verif/bin/check "$c" --tier "${TIER:-quick}" 2>&1); rc=$?
  nv=$(echo "$out" | grep -c '^VIOLATION')
  echo "== $c rc=$rc violations_lines=$nv"
  echo "$out" | grep -E "violation group|KNOWN-FINDING|MACHINERY|Error|Traceback" | head -8
done
