#!/usr/bin/env python3
"""Regenerates MANIFEST.json from the table below (single source of truth for the registered checks)."""
import json
import os

HERE = os.path.dirname(os.path.dirname(os.path.abspath(__file__)))

CHECKS = {
    "C01": dict(
        category="model_checking", design_ref="4/C01", engine="linear",
        technique="TLC-checked symbol tables of the documented PDEs (Symbols, MC_Linear) + replay of every table row and every Step/StepBack/StepN behaviour into the real steppers",
        text=("Symbols.tla transcribes the documented linear PDEs as term lists with symbolic real parameters; MC_Linear walks every stored index of "
              "every (class, mixing flag, D, N) and checks Hermitian consistency, mean preservation, sign/reversibility structure, class inclusions "
              "and the additivity of the time counter under Step/StepBack/StepN. Every row is evaluated at random real parameters (scalar, per-axis, "
              "SPD matrix; L over decades; dt up to 1e6 and negative) and compared with step_fourier(ones) of the real stepper at every stored index and "
              "with stepper(u) on Nyquist-free states; every TLC behaviour is replayed with steppers for dt, -dt and n*dt and compared with the exact "
              "solution after each action; the wave stepper against the exact per-mode 2x2 solution; normalized/difficulty linear interfaces against the same table."),
        note="TLC, dump parser, numpy complex exp/cos/sin as evaluator of the transcendental atoms, fft conventions bound by C04; tolerance 1e-11(1+|Im z|)"),
    "C02": dict(
        category="model_checking", design_ref="4/C02", engine="etdrk",
        technique="TLC stage machine over Q[E,z,1/z] (Tableau, MC_ETDRK) + mpmath-evaluated coefficient cover of the public ETDRKp + TLC trace validation (Trace_ETDRK) of recorded stage traces of every semi-linear stepper + observed order of rollouts under dt-halving against a tight reference",
        text=("MC_ETDRK executes the stage wiring of ETDRK0-4 symbolically in the ring Q[E,z,1/z] and TLC checks: wiring == canonical Cox-Matthews weights, "
              "row sums c_i*phi1(c_i z), explicitness, removable singularity at z=0, classical limit with all Butcher conditions up to order p, and the "
              "stability function == exp(z+w) through total degree p. The ring elements TLC reached are evaluated by mpmath on a dense cover of z (real "
              "axis 0, +-1e-8..20, down to -1e15; imaginary axis; left half plane) and compared with every stage input and the result of the public "
              "ETDRKp driven with a recording user-defined nonlinear function; one step of every public semi-linear stepper class x order 0-4 is "
              "recorded at the nonlinear-function boundary and validated by TLC against the stage machine, with the linear symbol from Symbols.tla. The property's second observation point - the error of rollouts against a tight reference under dt-halving - is measured on smooth problems (Burgers, KdV, Fisher-KPP; thorough: KS, 2-D Navier-Stokes): mean observed order over three halvings >= p - 0.35."),
        note="TLC, mpmath (60+ digits), the BaseNonlinearFun call boundary, documented linear parts transcribed in Symbols.tla; tolerance 1e-10 relative (cover), 2e5 ulps (traces)"),
    "C03": dict(
        category="model_checking", design_ref="4/C03", engine="nonlin",
        technique="TLC machine DealiasIn/Apply/DealiasOut on exact sparse spectra (Nonlin, MC_Nonlin) with alias-freeness and band invariants + replay of every terminal state into the real nonlinear functions + all-N dealiasing lemmas (Apalache, Lemmas_apa) + TLC validation (Trace_Hooks) of the retained-mode counts logged by the hooks in this run and in the repository's own tests + composed-machine sessions (Session.tla, thorough)",
        text=("Nonlin.tla states the documented continuous operators (all four convection forms, gradient norm, polynomial, general nonlinear, 2D vorticity "
              "convection, 3D projected rotational convection, Leray, Cahn-Hilliard, Gray-Scott) as exact operations on sparse two-sided spectra with "
              "Gaussian-rational coefficients (true convolutions in Z^D). MC_Nonlin runs DealiasIn -> Apply -> DealiasOut from every sum of <= degree real "
              "basis functions (every channel assignment, cos/sin, modes inside the band, one shell outside, Nyquist) for every (term, D, N, fraction) and "
              "TLC checks alias-freeness of the design, band confinement, reality and support. Every terminal state is replayed into the real "
              "nonlinear-function objects and compared on every stored index; by multilinearity this fixes the operator for every state on the grid."),
        note="TLC, dump parser, numpy synthesis of the input fields, fft conventions (C04); reaction terms measured via (S1-S0)/(dt phi1) of the public steppers; tolerance 1e-9 N^D"),
    "C04": dict(
        category="model_checking", design_ref="4/C04", engine="layout",
        technique="TLC-exhaustive layout/FFT tables (MC_Layout, MC_Fft) replayed entry-by-entry into exponax",
        text=("TLC enumerates every stored index of every (D,N) in range and every real basis function (incl. aliases) and checks the "
              "layout identities (DOF count, Hermitian partner involution, scaling relations, mask/block/bin laws, Parseval, round trip) "
              "exactly; every table row and every predicted basis image is then replayed into the real functions in a float64 and a "
              "float32 session. By linearity the basis images fix fft/ifft/get_fourier_coefficients for every state on those grids."),
        note="TLC/SANY, the dump parser, numpy evaluation of cos on the grid; tolerance 1e-10 (x64) / 3e-5 (f32) relative to N^D*a"),
    "C05": dict(
        category="model_checking", design_ref="4/C05", engine="linear",
        technique="TLC symbol table of d^m/dx_d^m for every stored index (Symbols.DerivativeTerms, MC_Linear.DerivativeOK/ParityOK) replayed into ex.derivative, the operator builders and Poisson",
        text=("MC_Linear carries, for every stored index of every (D,N), the exact symbol (i w k_d)^m of every pure derivative up to order 6; TLC checks "
              "composition, parity structure and that the Poisson symbol inverts the Laplacian of order 2 and 4 on every non-constant mode. The table is "
              "replayed into build_derivative_operator, build_laplace_operator (orders 0-6), build_gradient_inner_product_operator (orders 1-5, "
              "per-axis velocities), ex.derivative (orders 1-6, C in 1..3, output layout, random Nyquist-free trigonometric polynomials and single modes "
              "against closed forms) and Poisson (orders 2 and 4: zero-mean result, operator(u) = -(f - mean f)) for several domain extents."),
        note="TLC, fft conventions (C04), numpy cos for closed forms; tolerance 1e-10 relative"),
    "C06": dict(
        category="model_checking", design_ref="4/C06", engine="programs",
        technique="TLC machine of program shapes jit/vmap/rollout/repeat/parameter-batch over an injective integer stepper (MC_Programs; every lane interleaving; provenance, axis-order, transpose, repeat invariants) + replay of every program with real JAX/equinox transformations, exactly on an integer module and metamorphically on every public stepper class",
        text=("MC_Programs enumerates every program record {jit inside, jit outside} x {single step, rollout with/without initial state, repeat} x {no "
              "batch, mapped stepper rolled out (lock-step), rolled-out stepper mapped (independent lanes, all interleavings)} x {shared stepper, one "
              "stepper per lane built from its own constructor parameters} x n <= 3 x B <= 3 and executes it on the injective integer map a_b u + c_b; "
              "TLC checks that every table entry depends only on its own lane, that the assembled output equals the closed form in the documented axis "
              "order, that mapping a rollout is the rollout of the mapped stepper with batch and time exchanged, and that repeat is the last rollout "
              "state. Every terminal program is rebuilt with eqx.filter_jit, jax.vmap, eqx.filter_vmap, ex.rollout, ex.repeat over an integer equinox "
              "module (exact equality; this also yields the (lane, time) index map) and, for every public stepper class, compared with the eager "
              "one-at-a-time loop of the same code; one lane is perturbed and the others must stay bit-identical; every float constructor argument, dt "
              "and the last non-zero entry of every coefficient tuple is swept under eqx.filter_vmap against eagerly built steppers."),
        note="TLC, dump parser; the numeric oracle for real steppers is the code's own eager evaluation (metamorphic relation), tolerance 1e-9 x scale; one (D, N) per class; dealiasing_fraction / circle_radius treated as static configuration"),
    "C07": dict(
        category="model_checking", design_ref="4/C07", engine="diff",
        technique="TLC machine of exact directional derivatives of the documented nonlinear terms (MC_Diff: five-point stencil in Q(i) on sparse spectra; linearity, polarisation, Euler, band invariants) replayed into jax.jvp/vjp of the real nonlinear functions + symbol-table derivatives of linear steppers (state, dt, every coefficient; forward, reverse, Jacobian) + tangent-linear ETDRK step assembled from the specification's tableau against jax.jvp of every public stepper + central differences of the primal code for dt / coefficients / rollouts / guarded states",
        text=("MC_Diff computes, for every documented nonlinear term with its dealiasing, the exact directional derivative at sums of real basis functions "
              "in the direction of every basis function (the map is a polynomial of degree <= 3, so the five-point stencil on the line u + s v is exact; "
              "TLC checks linearity in the tangent, the central-difference form for quadratic maps, Euler's identity for homogeneous terms, reality and "
              "band confinement). Every terminal state is replayed against jax.jvp of the real nonlinear-function objects in physical space and the "
              "reverse mode against the forward mode. For linear steppers the TLC symbol tables give the Jacobian (the map itself), the adjoint "
              "(conjugate symbol), d/d(dt) and d/d(coefficient) in closed form, replayed with jvp, vjp, grad, jacfwd and jacrev. For every public "
              "semi-linear class x order the tangent-linear ETDRK step is assembled from the specification's tableau (mpmath) and the exact stencil "
              "derivative of the stepper's own nonlinear function (recorded primal evaluations) and compared with jax.jvp; d/d(dt), every coefficient "
              "(at its default, including exactly vanishing ones, and at configurations where an eigenvalue vanishes and the nonlinear term feeds that "
              "mode), rollouts, the zero and constant states and the Wave / Leray guards are compared with 6th-order central differences of the primal "
              "code in float64, and reverse mode with forward mode. Replay grids are chosen so that the retained band is not empty (a term without any non-zero predicted derivative stops the check); every argument variant of every semi-linear class in every dimension is differentiated against central differences and the adjoint identity."),
        note="the specification models the maps, not JAX's AD: establishes correct derivatives of the built-in maps only (not of user-defined nonlinear functions); central differences of the code's own primal evaluation decide the dt/coefficient/rollout clauses (the property's own criterion), tolerance 5e-7..5e-8 relative; model-derived oracles 1e-8..1e-9"),
    "C08": dict(
        category="model_checking", design_ref="4/C08", engine="nonlin",
        technique="TLC invariants ShiftOK/PermOK/VortSwapOK/EmbedOK on the exact sparse-spectrum machine (MC_Nonlin) + metamorphic replay of TLC-enumerated group elements on every public stepper",
        text=("On every applied state of MC_Nonlin TLC checks that the output of a product of modes lives on sums of the input wavenumbers (translation "
              "equivariance), that every isotropic term commutes with every axis permutation (channels permuted with the axes; the vorticity as a "
              "pseudo-scalar flips sign), and that a state varying along one axis is mapped like the 1D term. The same group elements are replayed on "
              "every public stepper class x argument variant x order x D x N odd/even: grid shifts on white-noise states (restricted to the "
              "forcing-invariant axes for Kolmogorov flow), all axis permutations on Nyquist-free states, embeddings along every axis (with the "
              "documented D*a_0 convention of the generic zeroth-order coefficient)."),
        note="TLC, np.roll/transpose/broadcast as group actions, code-vs-code tolerance 1e-10; nonlinear terms bound to the specification by C03"),
    "C09": dict(
        category="model_checking", design_ref="4/C09", engine="nonlin",
        technique="TLC invariants on the exact sparse-spectrum machine over sums of degree+1 basis functions (trilinear conservation forms), tableau row sums, lambda(0)=0 + TLC-validated monitored rollouts (Trace_Monitor)",
        text=("TLC checks exactly, for every sum of three real basis functions inside the retained band: the zero mode of every conservative form vanishes "
              "(MeanOK), Burgers-type convection does no work (EnergyOK), 2D vorticity convection conserves energy and enstrophy (VortOK), the 3D "
              "rotational term does no work and keeps the mean on divergence-free input (Rot3dOK); lambda(0)=0 for the mean-conserving classes "
              "(MC_Linear.MeanOK) and the row-sum identities that make constant equilibria fixed points of every order (MC_ETDRK.RowSumOK). Real "
              "steppers of every listed class/form x order 1-4 x D x N odd/even are rolled out on white-noise states with the per-channel mean drift "
              "logged per step and validated by TLC; work is evaluated in physical space on band-limited states; constant equilibria are stepped."),
        note="TLC, Trace_Monitor acceptance bound 2e4 ulps of the state magnitude; known finding F9 (3D velocity form on compressible states) is matched by (class, state kind) only"),
    "C10": dict(
        category="model_checking", design_ref="4/C10", engine="nonlin",
        technique="TLC invariants LerayOK/Rot3dOK on the exact sparse-spectrum machine + replay on random fields + TLC-validated divergence monitoring of 3D rollouts + composed-machine sessions (Session.tla: leray, make_incompressible; both tiers)",
        text=("For every basis sum TLC checks exactly that the Leray projection is divergence-free, idempotent, the identity on divergence-free fields "
              "and on the mean, and that the 3D rotational convection term is divergence-free for every input. Leray and make_incompressible are "
              "compared with each other and with these laws on random Nyquist-free fields (D=2,3, N odd/even, several L); 5-step rollouts of "
              "NavierStokesVelocity/KolmogorovFlowVelocity from solenoidal states for orders 1-4 log the spectral divergence per step, validated by TLC."),
        note="TLC, the library's derivative operator as measuring instrument for the divergence (C04/C05), Trace_Monitor bound 5e4 ulps"),
    "C11": dict(
        category="model_checking", design_ref="4/C11", engine="linear",
        technique="TLC sign/parity invariants of the symbol tables (MC_Linear: ReversibleOK, DissipativeOK, DiffusionPSD, ParityOK) + replay of moduli and norm ratios + TLC-validated monitored rollouts",
        text=("TLC checks on every stored index (Nyquist lines included) that advection/dispersion symbols are purely imaginary, diffusion/hyper-diffusion "
              "symbols real and non-positive (strictly negative off the mean for hyper-diffusion; PSD instances for full-matrix diffusion), and that "
              "odd/even generic terms are purely imaginary/real. Replay: |step_fourier(ones)| <= 1 at every index for scalar/vector/SPD-matrix "
              "coefficients, L over decades and dt up to 1e6; ||stepper(u)|| <= ||u|| on white-noise, Nyquist-only (last and leading axis) and "
              "Nyquist-free states with equality for the non-dissipative classes on odd grids / Nyquist-free states; generic/normalized/difficulty linear "
              "steppers on fine grids; wave energy before/after; rollouts with the per-step norm ratio validated by TLC (Trace_Monitor)."),
        note="TLC, numpy norms; tolerance 1e-12 on moduli/ratios (1e-9 for the generic family at dt = 1e6)"),
    "C12": dict(
        category="model_checking", design_ref="4/C12", engine="forcing",
        technique="TLC machine of the laminar Kolmogorov solution (MC_Forcing: forcing spectrum, no self-interaction via Nonlin, recurrence in Q[E,z,1/z]) + replay of every state as ex.repeat(stepper, n)(zeros)",
        text=("MC_Forcing states the documented forcing as a sparse spectrum (3D velocity: gamma sin(k w x_1) in channel 0; 2D vorticity: -k w gamma "
              "cos(k w x_1)), and TLC checks that it is Hermitian, representable for 1 <= k < N/2, invariant exactly along the non-forced axes, that "
              "the convective term (Nonlin.tla) vanishes on it, and that iterating u' = E^2 u + dt phi1 f from rest gives f (E^(2n) - 1)/z. Every "
              "state (kind, N incl. 49/98, injection mode, steps) is replayed with KolmogorovFlowVelocity / KolmogorovFlowVorticity / "
              "GeneralVorticityConvectionStepper for orders 1-4, L in {2pi, 1, 3, ...}, random gamma/nu/drag/dt/convection scale, comparing the whole "
              "field (channel, direction, wavenumber, amplitude, phase, zero elsewhere). ForcedStepper is compared with step(u + dt f) and the "
              "unforced step for every public class, physical and Fourier entry points. The cosine forcing at the Nyquist wavenumber of an even grid (a grid function) is part of the model; |sigma dt| down to 1e-9 for every order."),
        note="TLC, numpy expm1, tolerance 1e-9 of the laminar amplitude; uses MC_ETDRK.RowSumOK (C02) for 'every order'"),
    "C13": dict(
        category="model_checking", design_ref="4/C13", engine="linear",
        technique="TLC term-list equalities between specific and generic symbols (MC_Linear.EquivOK/GroupOK) and exact rational conversion tables (MC_Convert) + replay on every documented stepper pair",
        text=("TLC checks for every stored index that each specific class has the same symbol as the generic linear family with the documented "
              "coefficient list (incl. the D*a_0 zeroth-order convention, KdV signs, Swift-Hohenberg in 1D), that dt*lambda is invariant under "
              "(L,dt,a_j) -> (sL, t dt, a_j s^j/t), and - in MC_Convert - that normalize/denormalize and reduce/extract are mutual inverses and follow "
              "alpha_j = a_j dt/L^j, gamma_j = alpha_j N^j 2^(j-1) D, delta_1 = beta_1 M N D, delta_2 = beta_2 M N^2 D exactly over a rational grid. "
              "Every row is replayed into the conversion functions; every documented (specific, generic) pair x flags x D x N x order 0-4 is run on a "
              "white-noise state together with the normalized and difficulty steppers built from the specification's formulas and a rescaled triple."),
        note="TLC, code-vs-code tolerance 1e-10 (each side bound to the specification by C01-C03)"),
    "C14": dict(
        category="model_checking", design_ref="4/C14", engine="rollout",
        technique="TLC state machine of rollout/repeat/windows (MC_Rollout) + replay of every terminal state + TLC trace validation (Trace_Rollout) of recorded executions + TLC validation (Trace_Hooks) of the Trajectory/Windows events logged by the hooks in this run and in the repository's own tests",
        text=("MC_Rollout is the scan machine of rollout/repeat/stack_sub_trajectories over an injective integer bookkeeping stepper; TLC checks "
              "for every configuration (n, include_init, takes_aux, constant_aux, pytree and aux shapes, window lengths) that the machine equals "
              "the naive loop and terminates. Every terminal state is replayed into the real utilities (python-loop scan and jit) with exact "
              "integer comparison, and executions recorded from the real utilities (one event per stepper call, logged by the stepper) are "
              "validated against the machine by TLC (Trace_Rollout). RepeatedStepper/ForcedStepper/build_ic_set are compared with python loops "
              "over every public stepper class."),
        note="TLC, dump parser, injectivity of the bookkeeping stepper, jax.disable_jit / ordered debug callbacks for call logging"),
    "C15": dict(
        category="model_checking", design_ref="4/C15", engine="layout",
        technique="TLC step machine of map_between_resolutions (Scale/ZeroOddballOld/CopyBlock/Rescale/ZeroOddballNew) and exact interpolant spectra (MC_Resample) + replay of every terminal state + all-N block lemmas (Apalache) + composed-machine sessions (Session.tla -simulate, replayed call by call) + TLC validation (Trace_Hooks) of Resample events + float32 child pass",
        text=("MC_Resample executes the resolution change as the code does, block by block, on the exact half-spectrum of every real basis function "
              "of the old grid (Nyquist modes included) for every (D, N, M) in range (all parity combinations, M = N+-1, integer ratios); TLC checks "
              "that every copied entry keeps its wavenumber, the mean is preserved for every state, and a mode both grids resolve is mapped to the same "
              "function while unresolved / Nyquist modes are removed; the interpolant's two-sided spectrum equals the basis function for Nyquist-free "
              "modes and reproduces any state on its own grid. Replay: map_between_resolutions and FourierInterpolator on every state with random "
              "amplitude/phase/L/channels, query points inside and outside the domain, random dense states (both indexings, float-hazard grid sizes). Dense band-limited states (every mode of the box, corners included) are evaluated analytically on both grids for further pairs with even coarse grids."),
        note="TLC, numpy cos, fft conventions (C04); tolerance 1e-10 relative"),
    "C16": dict(
        category="model_checking", design_ref="4/C16", engine="metrics",
        technique="TLC pipeline machine Diff/Band/Aggregate over exact sparse spectra (MC_Metrics) with Parseval-through-layout, resolution, band-additivity, axiom, Cauchy-Schwarz and H1 invariants + replay of every terminal state into every function of exponax.metrics on two grids",
        text=("MC_Metrics evaluates every public metric (21 functions, registry MetricTable inside the specification) exactly on pairs of sparse two-sided "
              "spectra with rational amplitudes: per channel and derivative direction the exact atoms Sum |c_k|^2 k_j^2 (inner exponent 2) and the formal "
              "sums Sum w SQRT[q] (inner exponent 1). TLC checks Parseval through the rfft layout with the reconstruction weights on three grids "
              "(resolution independence), spatial = Fourier, band additivity over shells and over low/mid/high splits, zero-iff-identical, symmetry, "
              "homogeneity, the symmetric bound, Cauchy-Schwarz with its equality case, and that the derivative atoms are the atoms of the spectral "
              "gradient. Every terminal state is synthesised on its grid N and a second grid and run through all metrics (plain, band-limited, "
              "derivative_order=1, H1) for random L; the expected value is assembled from the atoms (powers of L, 2pi/L, sqrt). Random dense "
              "multi-channel states with Nyquist content are run through the relations proved for the model: Parseval, explicit Riemann sums, band "
              "partitions, channel additivity, homogeneity, L^D scaling, H1 = plain + gradient, correlation range/proportional cases, mean_metric."),
        note="TLC, dump parser, numpy synthesis, float64 sqrt/pow for the outer exponent and L factors; closed forms for spatial L1 metrics only on sign-definite fields (elsewhere axioms and scaling only); tolerance 2e-10"),
    "C17": dict(
        category="model_checking", design_ref="4/C17", engine="layout",
        technique="TLC-exact radial spectrum of every real basis function (MC_Spectrum) with one-bin/amplitude/Parseval/average invariants + replay into get_spectrum",
        text=("MC_Spectrum computes, in integer/rational arithmetic, the power and amplitude spectrum (sum and average binning) of every real basis "
              "function of every (D,N) in range - negative wavenumbers on leading axes, corner modes, Nyquist, cos and sin - and TLC checks that each "
              "mode lands in exactly the bin round(|k|) (or nowhere outside the Nyquist sphere), with amplitude 1 and power equal to half the mean "
              "square, and that average = sum / number of stored modes in the bin. Every state is replayed with a random amplitude and a second random "
              "basis function in a second channel (channel independence) through ex.get_spectrum for power/amplitude x sum/average; random states are "
              "compared with the explicit per-mode sum. Channels seven decades apart and weak modes superposed on strong ones keep their bins (per-channel tolerance)."),
        note="TLC, numpy cos/sin, tolerance 1e-10"),
    "C18": dict(
        category="model_checking", design_ref="4/C18", engine="ic",
        technique="TLC pipeline machine Validate/Draw/Shape/Offset/ZeroMean/StdOne/MaxOne/Wrap/Multi over a record of exact facts (MC_IC) with promise/consistency/reject/clamp/spectral invariants + replay of every terminal configuration into the real generators",
        text=("MC_IC runs every public random generator x normalisation flags x offset kind (zero, constant, range) x wrapper nesting (clamp, positive "
              "and negative scale) x multi-channel copies x D through the documented pipeline; each stage has gen/kill rules on a record of facts with "
              "exact rational values (mean, mean range, std, max|u|, min, max, band limit, spectral shaping law, unit DC ratio, function form, channel "
              "count). TLC checks that every accepted option combination establishes what its flags promise, that the record never contradicts itself, "
              "that the accept/reject decision is total and made before anything is drawn, that clamping reaches both limits under any later scaling, and "
              "that the spectral facts survive affine wrappers. Every terminal state is replayed: rejected combinations must raise ValueError; accepted "
              "ones are built and called for several keys on even and odd grids in D=1,2,3 and every fact is measured (shape, finiteness, determinism, "
              "key dependence, statistics, spectral support, ratio to the white-noise spectrum of the same draw against the power law / diffusion "
              "multiplier, function form == sampled form, channel j of the multi-channel wrapper == sub-generator j with sub-key j). Beyond the fixed parameter instances: cutoff sweep (0 ... beyond Nyquist) and two- and three-fold nested scaling wrappers."),
        note="TLC, dump parser; fixed parameter instances; degenerate RandomDiscontinuities draws (constant raw field) skipped; values of random draws are not predicted; tolerance 1e-9"),
    "C19": dict(
        category="model_checking", design_ref="4/C19", engine="dtype",
        technique="TLC dtype-pipeline machine of one step (MC_Dtype: session x requested dtype x order, promotion lattice) and exact N(0) table + replay in two child sessions (default, x64): dtypes at fft/step_fourier/result for every public class x order, the stiffness ladder 0..-1e15 through the public ETDRKp against the mpmath-evaluated tableau of MC_ETDRK as exact pivot, stiff real-stepper instances, single-vs-double agreement",
        text=("MC_Dtype runs Canonicalise, Fft, ExpMul / (NonlinIfft, NonlinProd, NonlinFft, CoefMul, Combine) x order, Ifft over the JAX promotion lattice for "
              "every (x64 flag, requested input dtype, order 0-4) and TLC checks that the result carries the session default float, is never narrower than "
              "the input, that step_fourier is complex of the session precision and that no intermediate exceeds it; it also evaluates N(0) exactly for "
              "every documented nonlinear term (unforced equations map zero to zero). The same configurations are executed in a default and an x64 child "
              "process: every public class x order (dtype at each observable stage, finiteness, exact zero image for unforced classes), the ladder z = 0, "
              "-1e-8 .. -1e15, the imaginary axis and a left-half-plane fan through ETDRK0-4 with recording nonlinear functions (coefficients, stage "
              "inputs and results finite, of the session's complex dtype, and within K eps (1+|z|) of the tableau evaluated by mpmath at the z the "
              "session stores), and fine-grid / high-order-dissipation / large-dt instances of real steppers on smooth O(1) states; whole steps are "
              "compared across the two sessions with a bound of 300 eps32 scale log2(size) plus 100x the measured sensitivity of that step."),
        note="finiteness and rounding magnitude are observed on the specification's ladder, not derived (TLC has no floats); bounds K32=1500, K64=5000 (measured worst multiple ~45) times eps (1+|z|); mpmath; the BaseNonlinearFun-free public ETDRKp interface"),
    "C20": dict(
        category="model_checking", design_ref="4/C20", engine="validate",
        technique="TLC decision tables (MC_Validate) replayed into every public class + TLC trace validation (Trace_Validate) of hook-recorded __call__ decisions (own drivers and the repository's tests)",
        text=("MC_Validate decides for every (target kind, D, N, C) and every shape mutation (channel count, extra/missing axes, one or all axis lengths, "
              "length-1 axes) whether the call must be accepted, with invariants 'exactly the expected shape is accepted' and 'every mutant is rejected', "
              "and evaluates the documented restriction table (dimension-restricted classes and nonlinear terms, order parities, argument lengths, "
              "scaling modes, metric modes, generator flag combinations, window lengths). Every state is replayed into every public stepper class "
              "enumerated from the exports (plus RepeatedStepper and Poisson), every row is executed against the API, and the decisions the hooks "
              "observed in this run and in the repository's own tests are validated by TLC against the same Decide function. The restriction table also carries the Poisson order and eleven mutations of the linear-operator shape a user-defined BaseStepper may return."),
        note="TLC, the EXPONAX_VERIF hooks at __call__ boundaries, transcription of the documented restrictions; classes are enumerated at run time"),
}

NOT_APPLICABLE = {
}

ALL = [f"C{i:02d}" for i in range(1, 21)]


# operations of the composed machine (spec/Session.tla) owned by each property: their mismatches in replayed TLC behaviours (spec -> code) and
# rejected events of driver-chosen sessions (Trace_Session.tla, code -> spec) are reported by that property's check
SESSION_OPS = {"C01": "advect (exact quarter-period advection step)", "C02": "rk (rational Runge-Kutta limit of ETDRKp, also through public stepper classes with vanishing linear part)",
               "C03": "apply (nonlinear terms between the transforms)", "C04": "filter, oddball, coefs", "C05": "derive, poisson", "C10": "leray, incomp",
               "C12": "forced (ForcedStepper around the exact advection step)", "C14": "advectn (repeat / rollout / RepeatedStepper of the exact advection step)",
               "C15": "resample, interp", "C16": "metric", "C17": "spectrum", "C20": "reject (malformed calls eagerly and through jit / vmap / rollout / repeat / wrappers)"}


def main():
    checks = []
    for pid in ALL:
        if pid not in CHECKS:
            continue
        c = dict(CHECKS[pid])
        if pid in SESSION_OPS:
            c["text"] = c["text"] + (" Inside multi-step API sessions: this check owns the operation(s) " + SESSION_OPS[pid] + " of the composed machine Session.tla - "
                                     "TLC-simulated sessions are replayed call by call with the whole state compared after every action" +
                                     ("" if pid == "C20" else ", and driver-chosen sessions executed by the library are validated event by event by TLC (Trace_Session.tla)") + ".")
            c["technique"] = c["technique"] + " + Session.tla simulation replay" + ("" if pid == "C20" else " and Trace_Session.tla trace validation") + " of the owned session operations"
        checks.append({
            "property_id": pid,
            "quick_cmd": f"bin/check {pid} --tier quick",
            "thorough_cmd": f"bin/check {pid} --tier thorough",
            "evidence_file": f"/verif/evidence/{pid}.json",
            "replay_cmd_template": f"bin/check {pid} --replay {{path}}",
            "engine": c["engine"],
            "level_claimed": {"category": c["category"], "text": c["text"], "design_ref": c["design_ref"]},
            "level_note": c["note"],
            "technique": c["technique"],
        })
    na = []
    for pid in ALL:
        if pid not in CHECKS:
            na.append({"property_id": pid, "reason": NOT_APPLICABLE.get(
                pid, "check not yet built in this revision of /verif (planned, see DESIGN.md section 4); not claimed until it runs")})
    man = {
        "version": 1,
        "setup_cmd": "./setup.sh",
        "hooks": {
            "guard": "EXPONAX_VERIF",
            "enable": "EXPONAX_VERIF=1 (set by bin/check); exponax is an editable install of /repo, so checks import the current working tree",
            "baseline_off_cmd": "cd /repo && env -u EXPONAX_VERIF /venv/bin/python -m pytest -ra -q -p no:cacheprovider --timeout=900 --continue-on-collection-errors",
            "source_commits": ["ec819bc", "d6c4536"],
            "fix_commits": ["dfdb8f9", "3779200", "66289cb", "db0461f", "b575a47", "ed218ce", "d239fb2", "74c429c", "032d6d3", "aaafae3"],
            "add_only": True,
        },
        "engines": [
            {"name": "layout", "path": "spec/MC_Layout.tla spec/MC_Fft.tla harness/checks/c04.py", "serves_properties": ["C04", "C15", "C17"],
             "kind_free_text": "TLC exhaustive tables + spec->code replay"},
            {"name": "linear", "path": "spec/Symbols.tla spec/MC_Linear.tla harness/linear.py harness/checks/c01.py", "serves_properties": ["C01", "C05", "C11", "C13"],
             "kind_free_text": "TLC symbol tables + behaviours, spec->code replay"},
            {"name": "etdrk", "path": "spec/Tableau.tla spec/MC_ETDRK.tla spec/Trace_ETDRK.tla harness/etdrk.py harness/checks/c02.py", "serves_properties": ["C02"],
             "kind_free_text": "TLC symbolic stage machine + coefficient cover + trace validation"},
            {"name": "validate", "path": "spec/MC_Validate.tla spec/Trace_Validate.tla harness/checks/c20.py", "serves_properties": ["C20"],
             "kind_free_text": "TLC decision tables + replay + hook-trace validation"},
            {"name": "nonlin", "path": "spec/Nonlin.tla spec/MC_Nonlin.tla harness/nonlin.py harness/checks/c03.py", "serves_properties": ["C03", "C08", "C09", "C10"],
             "kind_free_text": "TLC exact sparse-spectrum machine + spec->code replay"},
            {"name": "forcing", "path": "spec/MC_Forcing.tla harness/checks/c12.py", "serves_properties": ["C12"],
             "kind_free_text": "TLC laminar-solution machine + spec->code replay"},
            {"name": "metrics", "path": "spec/MC_Metrics.tla harness/checks/c16.py", "serves_properties": ["C16"],
             "kind_free_text": "TLC exact metric pipeline + spec->code replay"},
            {"name": "ic", "path": "spec/MC_IC.tla harness/checks/c18.py", "serves_properties": ["C18"],
             "kind_free_text": "TLC fact-propagation pipeline + spec->code replay"},
            {"name": "programs", "path": "spec/MC_Programs.tla harness/checks/c06.py", "serves_properties": ["C06"],
             "kind_free_text": "TLC program-shape machine + spec->code replay (integer-exact and metamorphic)"},
            {"name": "dtype", "path": "spec/MC_Dtype.tla harness/checks/c19.py harness/checks/c19_child.py", "serves_properties": ["C19"],
             "kind_free_text": "TLC dtype pipeline + two-session replay against an exact pivot"},
            {"name": "diff", "path": "spec/MC_Diff.tla harness/checks/c07.py", "serves_properties": ["C07"],
             "kind_free_text": "TLC exact derivative tables + replay into JAX AD"},
            {"name": "session", "path": "spec/Session.tla harness/session.py", "serves_properties": sorted(SESSION_OPS),
             "kind_free_text": "composed machine: TLC -simulate behaviours of public API calls replayed call by call, whole state (or observed value) compared after every action; exhaustive tiny instance in C17 thorough"},
            {"name": "sessiontrace", "path": "spec/Trace_Session.tla harness/sessiontrace.py", "serves_properties": sorted(set(SESSION_OPS) - {"C20"}),
             "kind_free_text": "code -> spec: driver-chosen API sessions executed by the library, every returned state rationalised and validated by TLC against the exact successor of Session.tla"},
            {"name": "masks", "path": "spec/MC_Masks.tla harness/checks/c04.py", "serves_properties": ["C04"],
             "kind_free_text": "TLC mask tables on grids beyond the full layout rows (modes on the cutoff sphere) + entry-by-entry replay"},
            {"name": "hooktrace", "path": "spec/Trace_Hooks.tla harness/hooktrace.py", "serves_properties": ["C03", "C14", "C15"],
             "kind_free_text": "TLC validation of hook-recorded events from our drivers and from the repository's own test-suite"},
            {"name": "lemmas", "path": "spec/Lemmas_apa.tla", "serves_properties": ["C03", "C04", "C15"],
             "kind_free_text": "Apalache: arithmetic lemmas for every N (unbounded integers)"},
            {"name": "xsession", "path": "harness/xsession.py", "serves_properties": ["C05", "C10", "C15", "C16", "C17"],
             "kind_free_text": "default-session (float32) child pass against the float64 parent"},
            {"name": "rollout", "path": "spec/MC_Rollout.tla spec/Trace_Rollout.tla harness/checks/c14.py", "serves_properties": ["C14"],
             "kind_free_text": "TLC state machine + replay + trace validation"},
        ],
        "checks": checks,
        "not_applicable": na,
        "notes": "All checks: TLA+ specification model-checked by TLC, bound to the code by replay of TLC-generated states/behaviours and/or validation of recorded traces. See DESIGN.md.",
    }
    with open(os.path.join(HERE, "MANIFEST.json"), "w") as f:
        json.dump(man, f, indent=1)
    import jsonschema  # noqa
    jsonschema.validate(man, json.load(open("/root/.vp/MANIFEST.schema.json")))
    print("MANIFEST.json written:", len(checks), "checks,", len(na), "not_applicable")


if __name__ == "__main__":
    main()
