#!/bin/bash
# tools/ingest.sh <PID> <agent-out-dir> <agent-worktree> <first-index> [matrix-log]
# Stage the two changes an agent delivered (patch{1,2}.diff, demo{1,2}.py, meta{1,2}.json) as seeded/_incoming/<PID>/*{j,j+1}.*,
# confirm each with tools/verify_seed.sh, then run the property's quick check against each kept change (tools/seedmatrix.sh).
set -u
P="$1"; OUT="$2"; WT="$3"; J="$4"; LOG="${5:-/tmp/seedm/matrix5.log}"
mkdir -p /verif/seeded/_incoming/$P /tmp/seedm
for i in 1 2; do
  j=$((J+i-1))
  [ -f "$OUT/patch$i.diff" ] || { echo "INGEST $P: no patch$i in $OUT"; continue; }
  cp "$OUT/patch$i.diff" /verif/seeded/_incoming/$P/patch$j.diff; cp "$OUT/demo$i.py" /verif/seeded/_incoming/$P/demo$j.py; cp "$OUT/meta$i.json" /verif/seeded/_incoming/$P/meta$j.json
done
git -C /repo worktree remove --force "$WT" 2>/dev/null
for i in 1 2; do
  j=$((J+i-1))
  [ -f /verif/seeded/_incoming/$P/patch$j.diff ] || continue
  /verif/tools/verify_seed.sh $P $j >> /tmp/seedv_log5.txt 2>&1
  if [ -d /verif/seeded/$P-$j ]; then /verif/tools/seedmatrix.sh $P-$j $P >> "$LOG" 2>&1; else echo "SEED $P-$j NOT-KEPT" >> "$LOG"; fi
done
echo "INGEST-DONE $P" >> "$LOG"
