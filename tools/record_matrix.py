#!/usr/bin/env python3
"""tools/record_matrix.py <matrix.log>: write the outcome of tools/seedmatrix.sh runs into seeded/<id>/meta.json (detected_by)."""
import json, os, re, sys
HERE = os.path.dirname(os.path.dirname(os.path.abspath(__file__)))
rows = {}
for line in open(sys.argv[1]):
    m = re.match(r"SEED (\S+) check=(\S+) rc=(\d+) violation_lines=(\d+) wall=(\d+)s\s*(.*)", line)
    if m:
        rows.setdefault(m.group(1), {})[m.group(2)] = dict(rc=int(m.group(3)), violation_lines=int(m.group(4)), wall_s=int(m.group(5)),
                                                           first_groups=m.group(6).strip()[:400])
for sid, checks in rows.items():
    p = os.path.join(HERE, "seeded", sid, "meta.json")
    if not os.path.exists(p):
        continue
    meta = json.load(open(p))
    det = {d["check"]: d for d in meta.get("detected_by", []) if isinstance(d, dict)}
    for c, r in checks.items():
        det[c] = dict(check=c, tier="quick", detected=(r["rc"] == 1 and r["violation_lines"] > 0), **r)
    meta["detected_by"] = sorted(det.values(), key=lambda d: d["check"])
    json.dump(meta, open(p, "w"), indent=1)
    print(sid, {c: d["detected"] for c, d in det.items()})
