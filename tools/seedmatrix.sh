#!/bin/bash
# tools/seedmatrix.sh <seed-dir-name> <CHECK_ID>...
# Runs the given quick checks against a scratch worktree of /repo HEAD with seeded/<seed>/patch.diff applied (never touches /repo itself;
# evidence and replay artefacts of these runs go to /tmp/seedm/<seed>/, not to /verif/evidence). Prints one line per check.
set -u
S="$1"; shift
V=/verif
W=/tmp/seedm/$S/wt
rm -rf /tmp/seedm/$S; mkdir -p /tmp/seedm/$S
git -C /repo worktree add -q --detach "$W" HEAD || exit 2
trap 'git -C /repo worktree remove --force "$W" 2>/dev/null; rm -rf "$W"' EXIT
git -C "$W" apply "$V/seeded/$S/patch.diff" || { echo "SEED $S patch does not apply"; exit 2; }
for c in "$@"; do
  s=$(date +%s)
  out=$(PYTHONPATH="$W" VERIF_REPO="$W" VERIF_EVIDENCE_DIR=/tmp/seedm/$S/ev VERIF_OUT_DIR=/tmp/seedm/$S/out TIER="${TIER:-quick}" \
        "$V/bin/check" "$c" --tier "${TIER:-quick}" 2>&1); rc=$?
  e=$(date +%s)
  nv=$(echo "$out" | grep -c '^VIOLATION')
  grp=$(echo "$out" | grep -E "violation group" | head -3 | tr '\n' ';')
  echo "SEED $S check=$c rc=$rc violation_lines=$nv wall=$((e-s))s $grp"
  echo "$out" > /tmp/seedm/$S/$c.log
done
