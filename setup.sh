#!/bin/bash
# MANIFEST.setup_cmd: offline build of the framework (mpmath into .deps, SANY over the specs)
set -e
cd "$(dirname "${BASH_SOURCE[0]}")"
mkdir -p .deps out evidence
if ! PYTHONPATH=.deps /venv/bin/python -c "import mpmath" 2>/dev/null; then
  /venv/bin/pip install -q --no-index --find-links /opt/veriftools/wheels --target .deps mpmath
fi
PYTHONPATH=.deps /venv/bin/python -c "import mpmath; print('mpmath', mpmath.__version__)"
cd spec
fail=0
for f in *.tla; do
  if ! java -cp /opt/veriftools/tla/tla2tools.jar:/opt/veriftools/tla/CommunityModules-deps.jar tla2sany.SANY "$f" > /tmp/sany.$$.log 2>&1; then
    echo "SANY failed on $f"; tail -20 /tmp/sany.$$.log; fail=1
  fi
done
rm -f /tmp/sany.$$.log
[ $fail = 0 ] && echo "SANY ok: $(ls *.tla | wc -l) modules"
exit $fail
