"""Run TLC / SANY / Apalache under a timeout and parse what they report."""
from __future__ import annotations

import os
import re
import shutil
import subprocess
import time
from dataclasses import dataclass, field

VERIF = os.path.dirname(os.path.dirname(os.path.abspath(__file__)))
SPEC = os.path.join(VERIF, "spec")
SCRATCH = os.path.join(VERIF, "out", ".tlc")
JAR = "/opt/veriftools/tla/tla2tools.jar"
CP = JAR + ":/opt/veriftools/tla/CommunityModules-deps.jar"


class MachineryError(Exception):
    """TLC itself failed (parse error, timeout, crash) - exit 2, never a verdict."""


@dataclass
class TLCResult:
    ok: bool
    generated: int = 0
    distinct: int = 0
    depth: int = 0
    wall: float = 0.0
    out: str = ""
    dump: str | None = None
    violated: str | None = None
    trace_text: str = ""
    cmd: str = ""
    coverage: dict = field(default_factory=dict)
    printed: list = field(default_factory=list)
    simdir: str | None = None


def _scratch(tag: str) -> str:
    d = os.path.join(SCRATCH, f"{tag}.{os.getpid()}.{int(time.time()*1000)%100000000}")
    os.makedirs(d, exist_ok=True)
    return d


def write_cfg(path: str, *, constants: dict | None = None, init="Init", next_="Next", spec=None,
              invariants=(), properties=(), constraints=(), view=None, postcondition=None,
              deadlock=False, extra: str = ""):
    lines = []
    if spec:
        lines.append(f"SPECIFICATION {spec}")
    else:
        lines += [f"INIT {init}", f"NEXT {next_}"]
    if constants:
        lines.append("CONSTANTS")
        for k, v in constants.items():
            lines.append(f"  {k} = {v}")
    for i in invariants:
        lines.append(f"INVARIANT {i}")
    for p in properties:
        lines.append(f"PROPERTY {p}")
    for c in constraints:
        lines.append(f"CONSTRAINT {c}")
    if view:
        lines.append(f"VIEW {view}")
    if postcondition:
        lines.append(f"POSTCONDITION {postcondition}")
    lines.append(f"CHECK_DEADLOCK {'TRUE' if deadlock else 'FALSE'}")
    if extra:
        lines.append(extra)
    with open(path, "w") as f:
        f.write("\n".join(lines) + "\n")


def run_tlc(module: str, cfg: str, *, workers: int | str = 8, timeout: int = 900, dump: bool = False,
            simulate: str | None = None, depth: int | None = None, seed: int | None = None,
            coverage: bool = False, env: dict | None = None, tag: str | None = None,
            dfs: bool = False, keep: bool = False, heap: str = "8g", tolerate_overflow: bool = False) -> TLCResult:
    """module: name of spec/<module>.tla ; cfg: absolute path or spec-relative cfg name."""
    tag = tag or module
    sc = _scratch(tag)
    tla = os.path.join(SPEC, module + ".tla")
    if not os.path.isabs(cfg):
        cfg = os.path.join(SPEC, cfg)
    java = ["java", "-XX:+UseParallelGC", f"-Xmx{heap}"]
    if dfs:
        java.append("-Dtlc2.tool.queue.IStateQueue=StateDeque")
    cmd = java + ["-cp", CP, "tlc2.TLC", "-workers", str(workers), "-metadir", os.path.join(sc, "meta"),
                  "-noGenerateSpecTE", "-config", cfg]
    dump_path = None
    if dump:
        dump_path = os.path.join(sc, "states")
        cmd += ["-dump", dump_path]
        dump_path += ".dump"
    simdir = None
    if simulate is not None:
        simdir = os.path.join(sc, "sim")
        os.makedirs(simdir, exist_ok=True)
        cmd += ["-simulate", simulate.replace("{dir}", simdir)]
    if depth is not None:
        cmd += ["-depth", str(depth)]
    if seed is not None:
        cmd += ["-seed", str(seed)]
    if coverage:
        cmd += ["-coverage", "1"]
    cmd.append(tla)
    e = dict(os.environ)
    e.pop("JAVA_TOOL_OPTIONS", None)
    if env:
        e.update(env)
    t0 = time.time()
    try:
        pr = subprocess.run(cmd, cwd=SPEC, env=e, capture_output=True, text=True, timeout=timeout)
    except subprocess.TimeoutExpired as ex:
        subprocess.run(["pkill", "-f", os.path.join(sc, "meta")], capture_output=True)
        raise MachineryError(f"TLC timeout after {timeout}s: {module} {cfg}") from ex
    wall = time.time() - t0
    out = pr.stdout + pr.stderr
    res = TLCResult(ok=False, wall=wall, out=out, dump=dump_path, cmd=" ".join(cmd), simdir=simdir)
    m = re.search(r"(\d+) states generated, (\d+) distinct states found", out)
    if m:
        res.generated, res.distinct = int(m.group(1)), int(m.group(2))
    m = re.search(r"depth of the complete state graph search is (\d+)", out)
    if m:
        res.depth = int(m.group(1))
    if simulate is not None:
        m = re.search(r"(\d+) states checked", out)
        if m:
            res.generated = res.distinct = int(m.group(1))
    if "Model checking completed. No error has been found." in out or (
            simulate is not None and pr.returncode == 0 and "Error:" not in out):
        res.ok = True
    else:
        m = re.search(r"Error: Invariant (\S+) is violated", out)
        m2 = re.search(r"Error: Action property (\S+) is violated", out)
        m3 = re.search(r"Error: Temporal properties were violated", out)
        m4 = re.search(r"Error: The postcondition (\S+)? ?.*(violated|false)", out)
        if m or m2 or m3 or m4 or "is violated" in out:
            res.violated = (m or m2).group(1) if (m or m2) else ("temporal" if m3 else "postcondition" if m4 else "unknown")
            i = out.find("Error:")
            res.trace_text = out[i:i + 6000]
        elif tolerate_overflow and "Overflow when computing" in out:
            # TLC's integers are 32-bit and it stops (loudly) instead of wrapping: the behaviours written before the stop are complete and valid
            res.ok = True
            res.overflow = True  # type: ignore[attr-defined]
        else:
            if not keep:
                shutil.rmtree(sc, ignore_errors=True)
            raise MachineryError(f"TLC failed ({module}, rc={pr.returncode}):\n{out[-3000:]}")
    if coverage:
        for mm in re.finditer(r"<(\w+) line \d+, col \d+ to line \d+, col \d+ of module (\w+)>: (\d+):(\d+)", out):
            res.coverage[mm.group(1)] = (int(mm.group(3)), int(mm.group(4)))
    res.scratch = sc  # type: ignore[attr-defined]
    return res


def cleanup(res: TLCResult):
    sc = getattr(res, "scratch", None)
    if sc:
        shutil.rmtree(sc, ignore_errors=True)


def sany(module: str):
    pr = subprocess.run(["java", "-cp", CP, "tla2sany.SANY", os.path.join(SPEC, module + ".tla")],
                        cwd=SPEC, capture_output=True, text=True, timeout=120)
    out = pr.stdout + pr.stderr
    if pr.returncode != 0 or "error" in out.lower().replace("errors: 0", ""):
        if "Semantic errors" in out or "Parse Error" in out or "Fatal" in out or pr.returncode != 0:
            raise MachineryError(f"SANY rejected {module}:\n{out[-2000:]}")
    return out


def extract_printed(out: str, tag: str):
    """Values printed by  PrintT(<<"tag", value>>)  - bracket matching, then the TLA value parser."""
    from .tlaval import parse_value
    vals = []
    pos = 0
    needle = '"' + tag + '"'
    while True:
        i = out.find(needle, pos)
        if i < 0:
            break
        j = out.rfind("<<", 0, i)
        depth, k = 0, j
        while k < len(out):
            if out.startswith("<<", k):
                depth += 1
                k += 2
                continue
            if out.startswith(">>", k):
                depth -= 1
                k += 2
                if depth == 0:
                    break
                continue
            if out[k] == '"':
                k = out.index('"', k + 1) + 1
                continue
            k += 1
        vals.append(parse_value(out[j:k])[1])
        pos = k
    return vals


def run_apalache(module: str, inv: str, *, length: int = 0, timeout: int = 600):
    """apalache-mc check --inv=<inv> --length=<length>: returns (proved: bool, wall seconds, tail of the output). The specification has
    unbounded integer variables, so 'NoError' at length 0 means: the invariant holds in every initial state, i.e. for every value."""
    sc = _scratch("apa_" + inv)
    t0 = time.time()
    try:
        pr = subprocess.run(["apalache-mc", "check", f"--inv={inv}", f"--length={length}", f"--out-dir={sc}", os.path.join(SPEC, module + ".tla")],
                            cwd=sc, capture_output=True, text=True, timeout=timeout)
    except subprocess.TimeoutExpired as ex:
        shutil.rmtree(sc, ignore_errors=True)
        raise MachineryError(f"apalache timeout: {module} {inv}") from ex
    out = pr.stdout + pr.stderr
    shutil.rmtree(sc, ignore_errors=True)
    if "The outcome is: NoError" in out:
        return True, time.time() - t0, out[-500:]
    if "The outcome is: Error" in out or "Found a deadlock" in out or "violat" in out.lower():
        return False, time.time() - t0, out[-1500:]
    raise MachineryError(f"apalache failed ({module}, {inv}):\n{out[-2000:]}")


def cleanup_mine():
    """Remove the scratch directories of this process only (checks may run concurrently)."""
    me = f".{os.getpid()}"
    if not os.path.isdir(SCRATCH):
        return
    for n in os.listdir(SCRATCH):
        parts = n.split(".")
        if str(os.getpid()) in parts[1:]:
            shutil.rmtree(os.path.join(SCRATCH, n), ignore_errors=True)
