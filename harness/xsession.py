"""Default-session (float32) pass for the non-stepper API: the same public calls on the same inputs in a float32 child process and in
the float64 parent; the float32 result must be float32 and within a small multiple of single-precision rounding of the float64 one.
(The deciding comparisons of every check run in float64 against exact predictions; this pass makes sure that the default session
takes the same code path to the same numbers.)"""
from __future__ import annotations

import json
import os
import pickle
import subprocess
import sys

import numpy as np

EPS32 = 1.1920929e-07


def call(ex, jnp, name, args, kw):
    """adapters: one public call per case, arrays in -> array out"""
    A = [jnp.asarray(a) if isinstance(a, np.ndarray) else a for a in args]
    if name.startswith("metrics."):
        return getattr(ex.metrics, name.split(".", 1)[1])(*A, **kw)
    if name == "get_spectrum":
        return ex.get_spectrum(*A, **kw)
    if name == "derivative":
        return ex.derivative(*A, **kw)
    if name == "fft_ifft":
        D = A[0].ndim - 1
        return ex.ifft(ex.fft(A[0]), num_spatial_dims=D, num_points=A[0].shape[-1])
    if name == "get_fourier_coefficients":
        c = ex.spectral.get_fourier_coefficients(A[0], **kw)
        return jnp.stack([c.real, c.imag])
    if name == "map_between_resolutions":
        return ex.map_between_resolutions(A[0], kw["new_num_points"])
    if name == "interpolate":
        return ex.FourierInterpolator(A[0], domain_extent=kw["L"])(A[1])
    if name == "poisson":
        D = A[0].ndim - 1
        return ex.poisson.Poisson(D, kw["L"], A[0].shape[-1], order=kw["order"])(A[0])
    if name == "make_incompressible":
        return ex.spectral.make_incompressible(A[0])
    if name == "leray":
        D, N = A[0].ndim - 1, A[0].shape[-1]
        dop = ex.spectral.build_derivative_operator(D, kw["L"], N)
        return ex.ifft(ex.nonlin_fun.Leray(D, N, derivative_operator=dop)(ex.fft(A[0])), num_spatial_dims=D, num_points=N)
    if name == "laplace_operator":
        dop = ex.spectral.build_derivative_operator(kw["D"], kw["L"], kw["N"])
        o = ex.spectral.build_laplace_operator(dop, order=kw["order"])
        return jnp.stack([o.real, o.imag]) if jnp.iscomplexobj(o) else o
    raise KeyError(name)


def compare(run, pid, cases, work, K=200.0):
    """cases: list of dict(id, name, args (np.float64 arrays / scalars), kw). Runs them here (float64) and in a float32 child."""
    from .num import setup_jax
    setup_jax(True)
    import jax.numpy as jnp
    import exponax as ex
    os.makedirs(work, exist_ok=True)
    jobf = os.path.join(work, "xs_job.pkl")
    outf = os.path.join(work, "xs_out")
    pickle.dump(cases, open(jobf, "wb"))
    env = dict(os.environ, VERIF_XS_JOB=jobf, VERIF_XS_OUT=outf)
    env.pop("JAX_ENABLE_X64", None)
    pr = subprocess.run([sys.executable, "-m", "harness.xsession"], env=env, capture_output=True, text=True, timeout=1800)
    if pr.returncode != 0:
        raise RuntimeError("float32 child failed:\n" + pr.stdout[-1500:] + pr.stderr[-1500:])
    meta = json.load(open(outf + ".json"))
    arrs = np.load(outf + ".npz")
    worst = 0.0
    for c in cases:
        cid = c["id"]
        run.case(("f32", pid, cid))
        m = meta[cid]
        key = {"kind": "default-session", "what": c["name"], "symbol": cid}
        if "error" in m:
            run.violation(dict(key, mode="raised in the float32 session"), m)
            continue
        ref = np.asarray(call(ex, jnp, c["name"], c["args"], c["kw"]), dtype=np.float64)
        got = arrs[cid]
        if m["dtype"] not in ("float32", "complex64"):
            run.violation(dict(key, mode="dtype"), {"dtype": m["dtype"]})
        if got.shape != ref.shape:
            run.violation(dict(key, mode="shape"), {"f32": list(got.shape), "f64": list(ref.shape)})
            continue
        if ref.size == 0:
            continue
        scale = float(np.max(np.abs(ref))) + float(c.get("scale_floor", 0.0))
        err = float(np.max(np.abs(got - ref))) if np.all(np.isfinite(got)) else float("inf")
        bound = K * EPS32 * max(1.0, np.log2(max([2] + [a.size for a in c["args"] if isinstance(a, np.ndarray)]))) * (scale if scale > 0 else 1.0) * c.get("cond", 1.0)
        worst = max(worst, err / (EPS32 * (scale if scale > 0 else 1.0) * c.get("cond", 1.0)))
        if not err <= bound:
            run.violation(dict(key, mode="value"), {"max_abs_diff": err, "bound": bound, "scale": scale})
    run.extra["default_session_cases"] = len(cases)
    run.extra["default_session_worst_eps32_multiple"] = round(worst, 2)


def _child():
    os.environ["JAX_PLATFORMS"] = "cpu"
    import jax
    jax.config.update("jax_enable_x64", False)
    import jax.numpy as jnp
    import exponax as ex
    cases = pickle.load(open(os.environ["VERIF_XS_JOB"], "rb"))
    meta, arrs = {}, {}
    for c in cases:
        try:
            args = [a.astype(np.float32) if isinstance(a, np.ndarray) and a.dtype == np.float64 else a for a in c["args"]]
            out = call(ex, jnp, c["name"], args, c["kw"])
            meta[c["id"]] = {"dtype": str(out.dtype)}
            arrs[c["id"]] = np.asarray(out, dtype=np.float64)
        except Exception as e:  # noqa: BLE001
            meta[c["id"]] = {"error": f"{type(e).__name__}: {str(e)[:300]}"}
    json.dump(meta, open(os.environ["VERIF_XS_OUT"] + ".json", "w"))
    np.savez(os.environ["VERIF_XS_OUT"] + ".npz", **arrs)


if __name__ == "__main__":
    _child()
