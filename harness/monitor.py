"""Validation of monitored rollouts with TLC (Trace_Monitor)."""
from __future__ import annotations

import json
import os
import shutil

from . import tlc
from .tlaval import iter_dump_states


def ulps(err, scale):
    return int(min(1e9, abs(err) / (2.220446049250313e-16 * max(scale, 1e-300))))


def validate(run, traces, max_ulps, label):
    """traces: [{"events": [{"ev": "Step", "i": n, "res": [ints]}]}] -> list of (accepted, accepted_prefix)"""
    if not traces:
        return []
    work = os.path.join(tlc.SCRATCH, f"monitor.{os.getpid()}.{label}")
    os.makedirs(work, exist_ok=True)
    tf = os.path.join(work, "traces.json")
    json.dump(traces, open(tf, "w"))
    cfg = os.path.join(work, "Trace_Monitor.cfg")
    tlc.write_cfg(cfg, spec="Spec", constants={"MaxUlps": max_ulps}, invariants=["CounterOK"])
    res = tlc.run_tlc("Trace_Monitor", cfg, workers=1, dump=True, env={"TRACE_FILE": tf}, timeout=1800, tag="Trace_Monitor")
    run.add_tlc(res, "Trace_Monitor/" + label)
    best = {}
    for st in iter_dump_states(res.dump):
        best[st["tid"]] = max(best.get(st["tid"], 0), st["l"])
    out = [(best.get(k, 1) == len(tr["events"]) + 1, best.get(k, 1) - 1) for k, tr in enumerate(traces, start=1)]
    tlc.cleanup(res)
    shutil.rmtree(work, ignore_errors=True)
    return out


def selftest(run, traces, max_ulps):
    import copy
    t = copy.deepcopy(traces[0])
    t["events"][-1]["res"] = [10 ** 9]
    t2 = copy.deepcopy(traces[0])
    if len(t2["events"]) > 1:
        del t2["events"][0]
    else:
        t2["events"][0]["i"] = 5
    v = validate(run, [t, t2], max_ulps, "selftest")
    if any(a for a, _ in v):
        raise RuntimeError("binding self-test failed: corrupted monitor trace accepted")
    run.extra["selftest_corrupted_traces_rejected"] = 2
