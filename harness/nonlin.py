"""Shared machinery for the nonlinear-term checks (C03, C08, C09, C10): run MC_Nonlin, decode sparse spectra,
build the real nonlinear-function objects with the specification's rational parameters."""
from __future__ import annotations

import os
from fractions import Fraction

import numpy as np

from . import tlc
from .num import as_map, cq, synth, wshape
from .tlaval import iter_dump_states

ALL_TERMS = ["conv_mc_cons", "conv_mc_non", "conv_sc_cons", "conv_sc_non", "gradnorm_fix", "gradnorm_nofix", "poly2", "poly3",
             "general_fix", "general_nofix", "vort2d", "rot3d", "leray", "cahn_hilliard", "gray_scott"]
INVS = ["AliasFree", "BandOK", "ShiftOK", "MeanOK", "EnergyOK", "VortOK", "Rot3dOK", "LerayOK"]
B = 1.5
POL2 = (1 / 3, -1 / 2, 2.0)
POL3 = (0.0, 1 / 2, -1 / 3, 3 / 4)
GEN = (1 / 2, -3 / 2, 2 / 3)
CHS = 3 / 4
GSF, GSK = 1 / 5, 3 / 10


def omega(N):
    return 2.0 if N % 3 == 0 else (0.5 if N % 3 == 1 else 1.0)


def run_model(run, dn, terms, extra, label, workers=16, timeout=3000, invs=INVS, dump=True, half=False):
    work = os.path.join(tlc.SCRATCH, f"nonlin.{os.getpid()}.{label}")
    os.makedirs(work, exist_ok=True)
    cfg = os.path.join(work, "MC_Nonlin.cfg")
    tlc.write_cfg(cfg, spec="Spec", constants={"DNSet": "{" + ",".join(map(str, dn)) + "}",
                                               "TermSet": "{" + ",".join('"%s"' % t for t in terms) + "}", "Extra": extra,
                                               "HalfFrac": "TRUE" if half else "FALSE"},
                  invariants=invs)
    res = tlc.run_tlc("MC_Nonlin", cfg, workers=workers, dump=dump, timeout=timeout, tag="MC_Nonlin_" + label)
    run.add_tlc(res, "MC_Nonlin/" + label)
    if not res.ok:
        run.violation({"kind": "spec", "invariant": res.violated, "label": label}, {"trace": res.trace_text})
    return res


def outputs(res):
    """Yield (term, D, N, inp, pred) for the terminal states; inp/pred: list (channels) of {k tuple: complex}."""
    for st in iter_dump_states(res.dump, must_contain='pc = "output"'):
        inp = [{k: cq(c) for k, c in as_map(f).items()} for f in st["inp"]]
        pred = [{k: cq(c) for k, c in as_map(f).items()} for f in st["cur"]]
        yield st["term"], st["D"], st["N"], inp, pred


def dense_from_twosided(D, N, field: dict):
    """half-spectrum array N^D * c at the stored index of every wavenumber with non-negative last component (|k| < N/2)"""
    a = np.zeros(wshape(D, N), dtype=complex)
    ND = float(N) ** D
    for k, c in field.items():
        if k[-1] < 0 or (k[-1] == 0 and False):
            continue
        idx = tuple(int(x) % N for x in k)
        if idx[-1] > N // 2:
            continue
        a[idx] += ND * c
    return a


def state_to_half(ex, jnp, D, N, inp):
    """real input state (C, N..N) from its two-sided spectra (synthesised analytically), and its rfft"""
    u = np.stack([synth(D, N, f).real for f in inp])
    return u, np.asarray(ex.fft(jnp.asarray(u)))


def build(ex, jnp, term, D, N, half=False):
    """the real object for a specification term with the specification's parameters; returns callable u_hat -> N_hat"""
    L = 2 * np.pi / omega(N)
    dop = ex.spectral.build_derivative_operator(D, L, N)
    nf = ex.nonlin_fun
    fr = 1 / 2 if half else 2 / 3
    if term.startswith("conv_"):
        return nf.ConvectionNonlinearFun(D, N, derivative_operator=dop, dealiasing_fraction=fr, scale=B,
                                         single_channel="_sc_" in term, conservative=term.endswith("cons"))
    if term.startswith("gradnorm"):
        return nf.GradientNormNonlinearFun(D, N, derivative_operator=dop, dealiasing_fraction=fr, zero_mode_fix=term.endswith("_fix"), scale=B)
    if term == "poly2":
        return nf.PolynomialNonlinearFun(D, N, dealiasing_fraction=fr, coefficients=POL2)
    if term == "poly3":
        return nf.PolynomialNonlinearFun(D, N, dealiasing_fraction=1 / 2, coefficients=POL3)
    if term.startswith("general"):
        return nf.GeneralNonlinearFun(D, N, derivative_operator=dop, dealiasing_fraction=fr, scale_list=GEN, zero_mode_fix=term.endswith("_fix"))
    if term == "vort2d":
        return nf.VorticityConvection2d(D, N, convection_scale=B, derivative_operator=dop, dealiasing_fraction=fr)
    if term == "rot3d":
        return nf.ProjectedConvection3d(D, N, derivative_operator=dop, dealiasing_fraction=fr)
    if term == "leray":
        return nf.Leray(D, N, derivative_operator=dop)
    if term in ("cahn_hilliard", "gray_scott"):
        return StepperNonlin(ex, jnp, term, D, N, L)
    raise KeyError(term)


class StepperNonlin:
    """The nonlinear term of a reaction stepper, measured through the public API only:
       order 1:  S1(u) = E u + dt phi1(z) N(u)   and   order 0:  S0(u) = E u   =>   N(u) = (S1(u) - S0(u)) / (dt phi1(z))."""

    def __init__(self, ex, jnp, term, D, N, L):
        dt = 0.5
        if term == "cahn_hilliard":
            # N = nu * c3 * Lap(u^3) with nu * c3 = CHS
            kw = dict(diffusivity=0.5, gamma=0.1, first_order_coefficient=-1.0, third_order_coefficient=CHS / 0.5)
            cls = ex.stepper.reaction.CahnHilliard
            lap = -(2 * np.pi / L) ** 2 * np.sum(np.asarray(ex.spectral.build_wavenumbers(D, N)) ** 2, axis=0)
            lam = (0.5 * lap * (-1.0 - 0.1 * lap))[None]
        else:
            kw = dict(diffusivity_1=0.3, diffusivity_2=0.2, feed_rate=GSF, kill_rate=GSK)
            cls = ex.stepper.reaction.GrayScott
            lap = -(2 * np.pi / L) ** 2 * np.sum(np.asarray(ex.spectral.build_wavenumbers(D, N)) ** 2, axis=0)
            lam = np.stack([0.3 * lap, 0.2 * lap])
        self.s1 = cls(D, L, N, dt, order=1, **kw)
        self.s0 = cls(D, L, N, dt, order=0, **kw)
        z = lam * dt
        with np.errstate(divide="ignore", invalid="ignore"):
            self.coef = jnp.asarray(dt * np.where(z == 0, 1.0, np.expm1(z) / np.where(z == 0, 1.0, z)))

    def __call__(self, u_hat):
        return (self.s1.step_fourier(u_hat) - self.s0.step_fourier(u_hat)) / self.coef
