"""Shared machinery for the linear-symbol checks (C01, C11, C13): run MC_Linear, decode the symbol table,
evaluate a term list at real parameters, build the corresponding real steppers."""
from __future__ import annotations

import os

import numpy as np

from . import tlc
from .num import cq, wshape
from .tlaval import iter_dump_states

INVS = ["HermitianOK", "MeanOK", "OrderOK", "ReversibleOK", "DissipativeOK", "DiffusionPSD", "InclusionOK", "Mix1dOK", "SemiRealOK", "DerivativeOK", "ParityOK", "EquivOK", "GroupOK", "SemigroupOK"]

QUICK_DN = [1003, 1004, 1005, 1008, 1009, 1016, 2003, 2004, 2005, 2006, 3003, 3004]
THOR_DN = [1000 + n for n in list(range(3, 34))] + [2000 + n for n in range(3, 13)] + [3000 + n for n in range(3, 8)]
# large 1D grids (incl. the float-hazard sizes 49, 98): derivative orders <= 4 only, k^6 leaves TLC's 32-bit integers for k >= 36
THOR_DN_BIG = [1049, 1064, 1098]


def run_model(run, tier, workdir, maxj=6, maxt=3):
    dn = QUICK_DN if tier == "quick" else THOR_DN
    cfg = os.path.join(workdir, "MC_Linear.cfg")
    tlc.write_cfg(cfg, constants={"DNSet": "{" + ",".join(map(str, dn)) + "}", "MaxJ": maxj, "MaxT": maxt}, invariants=INVS)
    res = tlc.run_tlc("MC_Linear", cfg, workers=16, dump=True, timeout=3000)
    run.add_tlc(res, "MC_Linear")
    if not res.ok:
        run.violation({"kind": "spec", "invariant": res.violated}, {"trace": res.trace_text})
    res.more = []
    if tier != "quick" and dn is THOR_DN:
        cfg2 = os.path.join(workdir, "MC_Linear_big.cfg")
        tlc.write_cfg(cfg2, constants={"DNSet": "{" + ",".join(map(str, THOR_DN_BIG)) + "}", "MaxJ": min(maxj, 4), "MaxT": 0}, invariants=INVS)
        res2 = tlc.run_tlc("MC_Linear", cfg2, workers=16, dump=True, timeout=3000, tag="MC_Linear_big")
        run.add_tlc(res2, "MC_Linear/big")
        if not res2.ok:
            run.violation({"kind": "spec", "invariant": res2.violated}, {"trace": res2.trace_text})
        res.more.append(res2)
    return res


def load(res):
    """-> tables {(cls, mix, D, N): {s: [terms]}}, behaviours [(cls, mix, D, N, hist, t)]"""
    tables, behs = {}, []
    import itertools
    dumps = [res.dump] + [r.dump for r in getattr(res, "more", [])]
    for st in itertools.chain.from_iterable(iter_dump_states(d) for d in dumps):
        key = (st["cls"], st["mix"], st["D"], st["N"])
        if len(st["hist"]) == 0:
            terms = [(tuple(t["c"]), t["w"], cq(t["m"])) for t in st["terms"]]
            tables.setdefault(key, {})[tuple(st["s"])] = terms
        else:
            behs.append((st["cls"], st["mix"], st["D"], st["N"], [tuple(h) for h in st["hist"]], st["t"]))
    for r in getattr(res, "more", []):
        tlc.cleanup(r)
    return tables, behs


def eval_terms(terms, params: dict, omega: float) -> complex:
    z = 0j
    for c, w, m in terms:
        z += params[c] * (omega ** w) * m
    return z


def symbol_array(D, N, table, params, omega):
    lam = np.zeros(wshape(D, N), dtype=complex)
    for s, terms in table.items():
        lam[s] = eval_terms(terms, params, omega)
    return lam


def symbol_abs_array(D, N, table, params, omega):
    """Sum_t |coef_t w^j mono_t(k)| per stored index: the magnitude against which the rounding of the code's own summation of the symbol
    is measured (the terms may cancel exactly, e.g. c (k_1 + k_2 + k_3) = 0, while each is rounded at its own size)."""
    out = np.zeros(wshape(D, N))
    for s, terms in table.items():
        out[s] = sum(abs(params[c] * (omega ** w) * m) for c, w, m in terms)
    return out


def spd(rng, D):
    a = rng.standard_normal((D, D))
    return a @ a.T / D + 0.05 * np.eye(D)


def draw_variants(cls, mix, D, rng, maxj=6):
    """Yield (label, params dict keyed by spec parameter names, ctor kwargs factory) for the real class(es)."""
    out = []
    if cls == "Advection":
        c = float(rng.uniform(-2, 2))
        out.append(("scalar", {("velocity", d, 0): c for d in range(1, D + 1)}, ("Advection", dict(velocity=c))))
        v = rng.uniform(-2, 2, D)
        out.append(("vector", {("velocity", d, 0): v[d - 1] for d in range(1, D + 1)}, ("Advection", dict(velocity=v))))
    elif cls in ("Diffusion", "AdvectionDiffusion"):
        def dpar(A):
            return {("diffusivity", a, b): A[a - 1, b - 1] for a in range(1, D + 1) for b in range(1, D + 1)}
        nu = float(rng.uniform(0.01, 0.5))
        vec = rng.uniform(0.01, 0.5, D)
        mat = spd(rng, D) * 0.2
        for lab, A, arg in (("scalar", np.eye(D) * nu, nu), ("vector", np.diag(vec), vec), ("matrix", mat, mat)):
            p = dpar(A)
            kw = dict(diffusivity=arg)
            if cls == "AdvectionDiffusion":
                v = rng.uniform(-2, 2, D)
                if lab == "scalar":
                    c = float(rng.uniform(-2, 2))
                    v = np.ones(D) * c
                    kw["velocity"] = c
                else:
                    kw["velocity"] = v
                p.update({("velocity", d, 0): v[d - 1] for d in range(1, D + 1)})
            out.append((lab, p, (cls, kw)))
    elif cls == "Dispersion":
        c = float(rng.uniform(-1, 1))
        out.append(("scalar", {("dispersivity", d, 0): c for d in range(1, D + 1)}, (cls, dict(dispersivity=c, advect_on_diffusion=bool(mix)))))
        v = rng.uniform(-1, 1, D)
        out.append(("vector", {("dispersivity", d, 0): v[d - 1] for d in range(1, D + 1)}, (cls, dict(dispersivity=v, advect_on_diffusion=bool(mix)))))
    elif cls == "HyperDiffusion":
        z = float(rng.uniform(1e-4, 0.05))
        out.append(("scalar", {("hyper_diffusivity", 0, 0): z}, (cls, dict(hyper_diffusivity=z, diffuse_on_diffuse=bool(mix)))))
    elif cls == "GeneralLinear":
        for J in sorted({1, 2, 3, 4, maxj}):
            a = rng.uniform(-1, 1, J + 1) * np.array([0.5 ** j for j in range(J + 1)])
            # keep even orders dissipative enough that exp stays moderate: sign of a_j (i)^j real part non-positive
            for j in range(0, J + 1, 2):
                a[j] = -abs(a[j]) if (j // 2) % 2 == 0 else abs(a[j])
                a[j] = -a[j] if j % 4 == 2 else a[j]      # order 2: positive diffuses; order 4: negative diffuses; order 0: negative drags
            a[0] = -abs(a[0])
            if J >= 2:
                a[2] = abs(a[2])
            if J >= 4:
                a[4] = -abs(a[4])
            if J >= 6:
                a[6] = abs(a[6]) * 0.01
            p = {("a", j, 0): (a[j] if j <= J else 0.0) for j in range(0, maxj + 1)}
            out.append((f"J{J}", p, ("GeneralLinearStepper", dict(linear_coefficients=tuple(float(x) for x in a)))))
    return out
