"""The composed machine (spec/Session.tla): TLC -simulate behaviours replayed call by call into the library, the whole state compared
after every action.  Each action belongs to one property; a check passes the set of operations it owns and receives the mismatches of
those operations (a behaviour is abandoned at its first mismatch, whoever owns it)."""
from __future__ import annotations

import glob
import os
import shutil

import numpy as np

from . import tlc
from .num import as_map, cq, fq, synth
from .tlaval import parse_behaviour_file

OWNER = {"derive": "C05", "filter": "C04", "apply": "C03", "rk": "C02", "resample": "C15", "leray": "C10", "incomp": "C10", "poisson": "C05", "oddball": "C04", "addmode": None,
         "advect": "C01", "advectn": "C14", "forced": "C12", "reject": "C20", "interp": "C15", "spectrum": "C17", "metric": "C16", "coefs": "C04"}
OBSERVATIONS = {"interp", "spectrum", "metric", "coefs", "reject"}
INVS = ["RealOK", "BandOK", "FilterOK", "ProjectOK", "DeriveOK", "OddballOK", "InterpOK", "SpectrumOK", "MetricOK"]
PROPS = ["PoissonOK", "AdvectOK", "EquivOK"]
DT_ADV = 0.5
L = 2 * np.pi
DT = 0.25


def simulate(run, tier, seed, label, num=None):
    work = os.path.join(tlc.SCRATCH, f"session.{os.getpid()}.{label}")
    os.makedirs(work, exist_ok=True)
    cfg = os.path.join(work, "Session.cfg")
    quick = tier == "quick"
    consts = {"Kinds": '{"s1", "s2", "v2"}' if quick else '{"s1", "s2", "v2", "s3", "v3"}',
              "Sizes": "{1008, 1009, 2006, 2005}" if quick else "{1008, 1009, 1012, 1015, 2006, 2005, 2008, 2009, 3006, 3005}",
              "MaxNl": 2, "MaxRK": 2, "Seeds": 6, "MaxLen": 6}
    tlc.write_cfg(cfg, spec="Spec", constants=consts, invariants=INVS, properties=PROPS)
    workers = 16
    per = num or (2 if quick else 60)
    target = per * workers
    behs, overflows, rounds = [], 0, 0
    while len(behs) < 0.6 * target and rounds < 4:
        # exact rationals grow along a session and TLC stops at a 32-bit overflow instead of wrapping: such a stop only ends that
        # simulation run (the behaviours written before it are complete); further runs with other seeds fill up the sample
        res = tlc.run_tlc("Session", cfg, workers=workers, simulate="file={dir}/tr,num=%d" % max(1, min(per, (target - len(behs) + workers - 1) // workers)),
                          depth=2 * 6 + 1, seed=seed + 1 + 1000 * rounds, timeout=3000, tag="Session_" + label, tolerate_overflow=True)
        rounds += 1
        run.add_tlc(res, "Session/" + label)
        if getattr(res, "overflow", False):
            overflows += 1
        elif not res.ok or res.violated:
            run.violation({"kind": "spec", "invariant": res.violated, "what": "Session"}, {"trace": res.trace_text})
        for f in sorted(glob.glob(os.path.join(res.simdir, "tr_*"))):
            try:
                b = parse_behaviour_file(f)
            except Exception:  # noqa: BLE001   a file still being written when TLC stopped
                continue
            b = [s for _, s in b]
            b = [b[0]] + [s for prev, s in zip(b, b[1:]) if s["len"] != prev["len"]]     # drop the steps that only choose a family
            if len(b) >= 2:
                behs.append(b)
        tlc.cleanup(res)
        if res.violated:
            break
    run.extra["session_simulation_runs"] = {"runs": rounds, "stopped_by_32bit_overflow": overflows}
    shutil.rmtree(work, ignore_errors=True)
    return behs


def exhaustive(run, label):
    """The whole reachable state graph of a tiny instance (one kind, two grids, two operations deep) with every invariant and action property;
    every family of operations must have been executed (vacuity guard: counted from the dumped states)."""
    work = os.path.join(tlc.SCRATCH, f"sessionx.{os.getpid()}.{label}")
    os.makedirs(work, exist_ok=True)
    cfg = os.path.join(work, "Session.cfg")
    tlc.write_cfg(cfg, spec="Spec", constants={"Kinds": '{"s1"}', "Sizes": "{1004, 1005}", "MaxNl": 1, "MaxRK": 1, "Seeds": 1, "MaxLen": 2},
                  invariants=INVS, properties=PROPS)
    res = tlc.run_tlc("Session", cfg, workers=16, dump=True, timeout=3400, tag="SessionX_" + label)
    run.add_tlc(res, "Session/exhaustive")
    if not res.ok:
        run.violation({"kind": "spec", "invariant": res.violated, "what": "Session (exhaustive)"}, {"trace": res.trace_text})
    ops = {}
    import re as _re
    with open(res.dump) as f:
        for ln in f:
            if "op |->" in ln:
                m = _re.search(r'op \|-> "(\w+)"', ln)
                if m:
                    ops[m.group(1)] = ops.get(m.group(1), 0) + 1
    tlc.cleanup(res)
    shutil.rmtree(work, ignore_errors=True)
    scalar_1d = set(OWNER) - {"leray", "incomp"}            # the vector operations need a vector kind
    missing = sorted(o for o in scalar_1d if o not in ops)
    run.extra["session_exhaustive"] = {"distinct_states": res.distinct, "depth": res.depth, "states_by_last_operation": ops, "never_executed": missing}
    if missing:
        raise tlc.MachineryError(f"Session (exhaustive): operations never executed: {missing}")


def _field(D, N, st):
    return np.stack([synth(D, N, {k: cq(c) for k, c in as_map(f).items()}).real if as_map(f) else np.zeros((N,) * D) for f in st])


_CACHE = {}


def _fun(ex, D, N, term):
    k = ("fun", D, N, term)
    if k not in _CACHE:
        _CACHE[k] = _fun0(ex, D, N, term)
    return _CACHE[k]


def _fun0(ex, D, N, term):
    nf = ex.nonlin_fun
    dop = ex.spectral.build_derivative_operator(D, L, N)
    if term.startswith("conv_"):
        return nf.ConvectionNonlinearFun(D, N, derivative_operator=dop, dealiasing_fraction=2 / 3, scale=1.0,
                                         single_channel="_sc_" in term, conservative=term.endswith("cons"))
    if term == "gradnorm_fix":
        return nf.GradientNormNonlinearFun(D, N, derivative_operator=dop, dealiasing_fraction=2 / 3, zero_mode_fix=True, scale=1.0)
    if term == "poly2":
        return nf.PolynomialNonlinearFun(D, N, dealiasing_fraction=2 / 3, coefficients=(0.0, 0.5, -1.0))
    if term == "vort2d":
        return nf.VorticityConvection2d(D, N, convection_scale=1.0, derivative_operator=dop, dealiasing_fraction=2 / 3)
    if term == "vort2d_kolm":
        return nf.VorticityConvection2dKolmogorov(D, N, convection_scale=1.0, injection_mode=1, injection_scale=1.0, derivative_operator=dop, dealiasing_fraction=2 / 3)
    if term == "general":
        return nf.GeneralNonlinearFun(D, N, derivative_operator=dop, dealiasing_fraction=2 / 3, scale_list=(1 / 2, -3 / 2, 2 / 3), zero_mode_fix=True)
    if term == "rot3d":
        return nf.ProjectedConvection3d(D, N, derivative_operator=dop, dealiasing_fraction=2 / 3)
    raise KeyError(term)


def apply_action(ex, jnp, D, N, u, last):
    """the public call for one machine action; returns (new array, new N)"""
    op = last["op"]
    ju = jnp.asarray(u)
    if op == "addmode":
        p = last["p"]
        jj = np.stack(np.meshgrid(*([np.arange(N)] * D), indexing="ij"))
        th = 2 * np.pi * sum(p[d] * jj[d] for d in range(D)) / N
        v = u.copy()
        v[last["ch"] - 1] += np.cos(th) if last["trig"] == "cos" else np.sin(th)
        return v, N
    if op == "derive":
        g = np.asarray(ex.derivative(ju, L, order=last["m"]))
        g = g.reshape((u.shape[0], D) + (N,) * D)
        return g[:, last["d"] - 1], N
    if op == "filter":
        mask = ex.spectral.low_pass_filter_mask(D, N, cutoff=last["cut"])
        return np.asarray(ex.ifft(ex.fft(ju) * mask, num_spatial_dims=D, num_points=N)), N
    if op == "apply":
        f = _fun(ex, D, N, last["term"])
        return np.asarray(ex.ifft(f(ex.fft(ju)), num_spatial_dims=D, num_points=N)), N
    if op == "rk" and last.get("via") == "stepper":
        k = ("rkstepper", D, N, last["term"], last["p"], u.shape[0])
        if k not in _CACHE:
            _CACHE[k] = _stepper_with_zero_linear_part(ex, D, N, last["term"], last["p"], u.shape[0])
        if _CACHE[k] is not None:
            return np.asarray(_CACHE[k](ju)), N
    if op in ("rk",):
        f = _fun(ex, D, N, last["term"])
        cls = {1: ex.etdrk.ETDRK1, 2: ex.etdrk.ETDRK2, 3: ex.etdrk.ETDRK3, 4: ex.etdrk.ETDRK4}[last["p"]]
        uh = ex.fft(ju)
        k = ("rk", D, N, last["term"], last["p"], uh.shape)
        if k not in _CACHE:
            _CACHE[k] = cls(DT, jnp.zeros(uh.shape, dtype=uh.dtype), f)
        integ = _CACHE[k]
        return np.asarray(ex.ifft(integ.step_fourier(uh), num_spatial_dims=D, num_points=N)), N
    if op == "resample":
        return np.asarray(ex.map_between_resolutions(ju, last["M"])), last["M"]
    if op == "leray":
        dop = ex.spectral.build_derivative_operator(D, L, N)
        f = ex.nonlin_fun.Leray(D, N, derivative_operator=dop)
        return np.asarray(ex.ifft(f(ex.fft(ju)), num_spatial_dims=D, num_points=N)), N
    if op == "incomp":
        return np.asarray(ex.spectral.make_incompressible(ju)), N
    if op == "poisson":
        return np.asarray(ex.poisson.Poisson(D, L, N, order=last["o"])(ju)), N
    if op == "forced":
        k = ("adv", D, N, tuple(last["v"]))
        if k not in _CACHE:
            _CACHE[k] = ex.stepper.Advection(D, L, N, DT_ADV, velocity=jnp.asarray(np.asarray(last["v"], dtype=float) * (np.pi / 2) / DT_ADV))
        jj = np.stack(np.meshgrid(*([np.arange(N)] * D), indexing="ij"))
        th = 2 * np.pi * sum(last["p"][d] * jj[d] for d in range(D)) / N
        f = jnp.asarray((np.cos(th) if last["trig"] == "cos" else np.sin(th))[None])
        fs = ex.ForcedStepper(_CACHE[k])
        return np.concatenate([np.asarray(fs(ju[c:c + 1], f)) for c in range(u.shape[0])], axis=0), N
    if op in ("advect", "advectn"):
        vel = np.asarray(last["v"], dtype=float) * (np.pi / 2) / DT_ADV          # c dt w = v pi / 2 with w = 2 pi / L = 1
        k = ("adv", D, N, tuple(last["v"]))
        if k not in _CACHE:
            _CACHE[k] = ex.stepper.Advection(D, L, N, DT_ADV, velocity=jnp.asarray(vel))
        stp = _CACHE[k]
        chans = []
        for c in range(u.shape[0]):          # the stepper is single-channel: one call per channel
            uc = ju[c:c + 1]
            if op == "advect":
                chans.append(np.asarray(stp(uc)))
            elif last["how"] == "repeat":
                chans.append(np.asarray(ex.repeat(stp, last["n"])(uc)))
            elif last["how"] == "rollout":
                trj = np.asarray(ex.rollout(stp, last["n"], include_init=True)(uc))
                if trj.shape != (last["n"] + 1,) + tuple(uc.shape) or not np.array_equal(trj[0], np.asarray(uc)):
                    raise AssertionError("rollout(include_init=True): wrong trajectory shape or first entry")
                chans.append(trj[-1])
            else:
                chans.append(np.asarray(ex.RepeatedStepper(stp, last["n"])(uc)))
        return np.concatenate(chans, axis=0), N
    if op == "oddball":
        return np.asarray(ex.ifft(ex.fft(ju) * ex.spectral.oddball_filter_mask(D, N), num_spatial_dims=D, num_points=N)), N
    raise KeyError(op)


def _stepper_with_zero_linear_part(ex, D, N, term, p, C):
    """public stepper classes whose linear operator vanishes identically for these arguments: their ETDRK step is the rational Runge-Kutta step
    of the machine (z -> 0 limits), now through BaseStepper's own plumbing"""
    st = ex.stepper
    if term.startswith("conv_"):
        return st.Burgers(D, L, N, DT, diffusivity=0.0, convection_scale=1.0, single_channel="_sc_" in term, conservative=term.endswith("cons"), order=p)
    if term == "gradnorm_fix":
        return st.KuramotoSivashinsky(D, L, N, DT, gradient_norm_scale=1.0, second_order_scale=0.0, fourth_order_scale=0.0, order=p)
    if term == "poly2":
        return st.generic.GeneralPolynomialStepper(D, L, N, DT, linear_coefficients=(0.0,), polynomial_coefficients=(0.0, 0.5, -1.0), order=p)
    if term == "vort2d":
        return st.NavierStokesVorticity(D, L, N, DT, diffusivity=0.0, vorticity_convection_scale=1.0, drag=0.0, order=p)
    if term == "vort2d_kolm":
        return st.KolmogorovFlowVorticity(D, L, N, DT, diffusivity=0.0, convection_scale=1.0, drag=0.0, injection_mode=1, injection_scale=1.0, order=p)
    if term == "rot3d":
        return st.NavierStokesVelocity(D, L, N, DT, diffusivity=0.0, drag=0.0, order=p)
    if term == "general":
        return st.generic.GeneralNonlinearStepper(D, L, N, DT, linear_coefficients=(0.0,), nonlinear_coefficients=(1 / 2, -3 / 2, 2 / 3), order=p)
    return None


def observe(ex, jnp, D, N, u, last):
    """the public call of an observation action and the machine's prediction, as comparable arrays; returns (got, want, tolerance scale)"""
    op, obs = last["op"], last["obs"]
    ju = jnp.asarray(u)
    if op == "interp":
        x = jnp.asarray(np.asarray(last["q"], dtype=float) * (L / 4))
        got = np.asarray(ex.FourierInterpolator(ju, domain_extent=L)(x))
        want = np.array([float(fq(c["re"])) for c in obs])
        return got, want, 1.0 + float(np.max(np.abs(u)))
    if op == "spectrum":
        got = np.asarray(ex.get_spectrum(ju, power=True))
        want = np.array([[float(fq(b)) for b in ch] for ch in obs])
        return got, want, 1.0 + float(np.max(np.abs(want)))
    if op == "metric":
        m = ex.metrics
        lo, hi = last["lo"], last["hi"]
        mse, band, grad = float(fq(obs["mse"])), float(fq(obs["band"])), float(fq(obs["grad"]))
        z = jnp.zeros_like(ju)
        got = [float(m.MSE(ju)), float(m.MSE(ju, z, domain_extent=L)), float(m.fourier_MSE(ju)), float(m.RMSE(ju)),
               float(m.fourier_MSE(ju, z, domain_extent=L, low=lo, high=hi)), float(m.H1_MSE(ju, z, domain_extent=L)),
               float(m.fourier_MSE(ju, domain_extent=L, derivative_order=1))]
        want = [mse, L ** D * mse, mse, sum(np.sqrt(float(fq(c))) for c in obs["chan"]), L ** D * band, L ** D * (mse + grad), L ** D * grad]
        return np.array(got), np.array(want), 1.0 + L ** D * (mse + grad)
    if op == "reject":
        import equinox as eqx
        import jax
        C = 1 if last["target"] == "advection" else D
        k = ("rej", D, N, last["target"])
        if k not in _CACHE:
            _CACHE[k] = ex.stepper.Advection(D, L, N, 0.1) if last["target"] == "advection" else ex.stepper.Burgers(D, L, N, 0.1)
        stp = _CACHE[k]
        good = np.zeros((C,) + (N,) * D) + u[:1].mean()
        bad = {"extra_channel": np.zeros((C + 1,) + (N,) * D), "no_channel_axis": np.zeros((N,) * D), "axis_plus_one": np.zeros((C,) + (N,) * (D - 1) + (N + 1,)),
               "all_axes_plus_one": np.zeros((C,) + (N + 1,) * D), "batch_axis": np.zeros((1, C) + (N,) * D),
               "missing_spatial_axis": np.zeros((C,) + (N,) * (D - 1))}[last["mut"]]
        jb = jnp.asarray(bad)
        how = last["how"]
        call = {"eager": lambda: stp(jb), "jit": lambda: eqx.filter_jit(stp)(jb), "vmap": lambda: jax.vmap(stp)(jnp.stack([jb, jb])),
                "rollout": lambda: ex.rollout(stp, 2)(jb), "repeat": lambda: ex.repeat(stp, 2)(jb),
                "repeated": lambda: ex.RepeatedStepper(stp, 2)(jb), "forced": lambda: ex.ForcedStepper(stp)(jb, jb)}[how]
        try:
            out = call()
            outcome = "returned " + str(tuple(np.shape(out)))
        except ValueError:
            outcome = "ValueError"
        except Exception as e:  # noqa: BLE001
            outcome = type(e).__name__
        accepted = np.asarray(stp(jnp.asarray(good))).shape == good.shape          # the well-formed state is accepted and keeps its shape
        got = np.array([1.0 if outcome == "ValueError" else 0.0, 1.0 if accepted else 0.0])
        if outcome != "ValueError":
            last = dict(last, outcome=outcome)
        return got, np.array([1.0, 1.0]), 1.0
    if op == "coefs":
        got = np.asarray(ex.spectral.get_fourier_coefficients(ju, round=None))
        want = np.zeros(got.shape, dtype=complex)
        for c, ch in enumerate(obs):
            for s_, v in as_map(ch).items():
                want[(c,) + tuple(s_)] = cq(v)
        return got, want, 1.0 + float(np.max(np.abs(want)))
    raise KeyError(op)


def replay(run, behs, ex, jnp, owned, pid):
    """owned: set of operation names whose mismatches this check reports. Returns counters."""
    nact, nbeh, ops_seen = 0, 0, {}
    for states in behs:
        s0 = states[0]
        D, N = s0["D"], s0["N"]
        u = _field(D, N, s0["st"])
        nbeh += 1
        trail = []
        for st in states[1:]:
            last = st["last"]
            op = last["op"]
            trail.append({k: (list(v) if isinstance(v, tuple) else v) for k, v in last.items() if k != "obs"})
            if op in OBSERVATIONS:
                try:
                    got, want, scale = observe(ex, jnp, D, N, u, last)
                    bad = got.shape != want.shape or not float(np.max(np.abs(got - want))) <= 1e-9 * scale
                    detail = {"max_abs_diff": float(np.max(np.abs(got - want))) if got.shape == want.shape else None, "shape": list(got.shape)}
                except Exception as e:  # noqa: BLE001
                    bad, detail = True, {"exception": repr(e)[:300]}
                nact += 1
                ops_seen[op] = ops_seen.get(op, 0) + 1
                if bad:
                    if op in owned:
                        trail[-1].pop("obs", None)
                        run.violation({"kind": "session", "what": op, "D": D, "mode": "observation"}, dict(detail, actions=[{k: v for k, v in t.items() if k != "obs"} for t in trail], N=N))
                    break
                continue
            try:
                u, N = apply_action(ex, jnp, D, N, u, last)
            except Exception as e:  # noqa: BLE001
                if op in owned:
                    run.violation({"kind": "session", "what": op, "mode": "raised", "D": D}, {"actions": trail, "exception": repr(e)[:300]})
                break
            nact += 1
            ops_seen[op] = ops_seen.get(op, 0) + 1
            want = _field(D, st["N"], st["st"])
            scale = 1.0 + float(np.max(np.abs(want)))
            if u.shape != want.shape or not float(np.max(np.abs(u - want))) <= 1e-9 * scale:
                if op in owned:
                    run.violation({"kind": "session", "what": op, "D": D, "mode": "state after action"},
                                  {"actions": trail, "N": N, "max_abs_diff": float(np.max(np.abs(u - want))) if u.shape == want.shape else None,
                                   "shape": list(u.shape)})
                break
        run.case(("session", pid, repr(trail)))
    run.traces += nbeh
    run.extra["session"] = {"behaviours": nbeh, "actions_replayed": nact, "by_operation": ops_seen, "owned_operations": sorted(owned)}
    if behs:
        b = behs[min(3, len(behs) - 1)]
        run.sample({"session_behaviour": [{k: (list(v) if isinstance(v, tuple) else v) for k, v in s["last"].items() if k != "obs"} for s in b]})


def run_for(run, tier, seed, ex, jnp, owned, pid):
    behs = simulate(run, tier, seed, pid)
    if len(behs) < 5:
        raise RuntimeError("Session simulation produced too few behaviours")
    replay(run, behs, ex, jnp, set(owned), pid)
