"""Evidence writer, violation bookkeeping, known-findings matching."""
from __future__ import annotations

import json
import os
import time

VERIF = os.path.dirname(os.path.dirname(os.path.abspath(__file__)))
KNOWN = os.path.join(VERIF, "known_findings.json")


def _jsonable(x):
    import fractions
    try:
        import numpy as np
    except Exception:  # pragma: no cover
        np = None
    if isinstance(x, dict):
        return {str(k): _jsonable(v) for k, v in x.items()}
    if isinstance(x, (list, tuple)):
        return [_jsonable(v) for v in x]
    if isinstance(x, (set, frozenset)):
        return sorted((_jsonable(v) for v in x), key=repr)
    if isinstance(x, fractions.Fraction):
        return [x.numerator, x.denominator]
    if isinstance(x, complex):
        return {"re": x.real, "im": x.imag}
    if np is not None:
        if isinstance(x, np.generic):
            return _jsonable(x.item())
        if isinstance(x, np.ndarray):
            return _jsonable(x.tolist())
    if isinstance(x, (str, int, float, bool)) or x is None:
        return x
    return repr(x)


def load_known():
    if not os.path.exists(KNOWN):
        return []
    with open(KNOWN) as f:
        return json.load(f).get("findings", [])


def _match(pattern: dict, key: dict) -> bool:
    for k, v in pattern.items():
        if k not in key:
            return False
        kv = key[k]
        if isinstance(v, list):
            if kv not in v:
                return False
        elif isinstance(v, dict) and "not" in v:
            if kv == v["not"]:
                return False
        elif kv != v:
            return False
    return True


class Run:
    """One run of one check. Collects coverage counters, samples and violations."""

    def __init__(self, pid: str, tier: str, seed: int, level: str = "model_checking"):
        self.pid, self.tier, self.seed, self.level = pid, tier, seed, level
        self.t0 = time.time()
        self.states = 0
        self.transitions = 0
        self.traces = 0
        self.evaluations = 0
        self.nontrivial = set()
        self.nontrivial_count = 0
        self.samples = []
        self.violations = []      # (key dict, detail dict)
        self.known_hits = {}      # finding id -> count
        self.extra = {}
        self.assumptions = []
        self.rule = ""
        self.tlc_runs = []
        self.exhaustive = None
        self._known = [f for f in load_known() if f.get("property") == pid and f.get("status") == "known"]

    # ---- coverage
    def add_tlc(self, res, label=""):
        self.states += res.distinct
        self.transitions += res.generated
        self.tlc_runs.append({"label": label, "distinct": res.distinct, "generated": res.generated,
                              "depth": res.depth, "wall_s": round(res.wall, 2)})

    def case(self, key=None, nontrivial=True):
        self.evaluations += 1
        if nontrivial:
            if key is None:
                self.nontrivial_count += 1
            else:
                self.nontrivial.add(key if isinstance(key, (str, int, tuple)) else repr(key))

    def sample(self, s, limit=6):
        if len(self.samples) < limit:
            self.samples.append(_jsonable(s))

    # ---- verdicts
    def violation(self, key: dict, detail: dict):
        """key: the identifying configuration of the failing case (used for known-finding matching)."""
        for f in self._known:
            if _match(f.get("match", {}), key):
                self.known_hits.setdefault(f["id"], [0, f, key])[0] += 1
                return False
        self.violations.append((key, detail))
        return True

    def finish(self) -> int:
        wall = time.time() - self.t0
        outdir = os.path.join(os.environ.get("VERIF_OUT_DIR") or os.path.join(VERIF, "out"), self.pid)
        os.makedirs(outdir, exist_ok=True)
        lines = []
        for fid, (cnt, f, key) in self.known_hits.items():
            lines.append(f"KNOWN-FINDING: property={self.pid} {f.get('what', fid)} [{fid}; {cnt} case(s)]")
        import collections
        summ = collections.Counter()
        for key, _ in self.violations:
            summ[tuple((k, str(v)) for k, v in sorted(key.items()) if k in ("kind", "what", "cls", "D", "indexing", "session", "mode", "term", "order", "invariant", "region", "symbol"))] += 1
        for k, v in summ.most_common(40):
            print(f"  [violation group x{v}] " + " ".join(f"{a}={b}" for a, b in k), flush=True)
        seen = 0
        for i, (key, detail) in enumerate(self.violations):
            if seen >= 25:
                break
            path = os.path.join(outdir, f"case_{self.tier}_{i:03d}.json")
            with open(path, "w") as fh:
                json.dump(_jsonable({"property": self.pid, "key": key, "detail": detail, "seed": self.seed}), fh, indent=1)
            lines.append(f"VIOLATION property={self.pid} replay={path}")
            seen += 1
        cov = {
            "states": int(self.states),
            "transitions": int(self.transitions),
            "traces_validated_against_impl": int(self.traces),
            "samples": self.samples or [{"note": "no sample recorded"}],
            "evaluations": int(self.evaluations),
            "distinct_nontrivial": int(len(self.nontrivial) + self.nontrivial_count),
            "rule": self.rule,
            "tlc_runs": self.tlc_runs,
            "known_findings_hit": {k: v[0] for k, v in self.known_hits.items()},
        }
        if self.exhaustive is not None:
            cov["exhaustive"] = bool(self.exhaustive)
        if self.level == "other":
            cov["explanation"] = self.extra.pop("explanation", self.rule)
        cov.update(_jsonable(self.extra))
        ev = {
            "property_id": self.pid,
            "tier": self.tier,
            "seed": int(self.seed),
            "level": self.level,
            "coverage": cov,
            "assumptions": self.assumptions,
            "wall_s": round(wall, 2),
            "violations": len(self.violations),
        }
        evdir = os.environ.get("VERIF_EVIDENCE_DIR") or os.path.join(VERIF, "evidence")   # overridden only by tools/seedmatrix.sh
        os.makedirs(evdir, exist_ok=True)
        with open(os.path.join(evdir, f"{self.pid}.json"), "w") as fh:
            json.dump(ev, fh, indent=1)
        for ln in lines:
            print(ln, flush=True)
        print(f"[{self.pid}] tier={self.tier} seed={self.seed} states={self.states} transitions={self.transitions} "
              f"evaluations={self.evaluations} nontrivial={cov['distinct_nontrivial']} traces={self.traces} "
              f"violations={len(self.violations)} known={sum(v[0] for v in self.known_hits.values())} wall={wall:.1f}s",
              flush=True)
        return 1 if self.violations else 0
