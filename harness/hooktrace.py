"""Validation of hook-recorded events (EXPONAX_VERIF=1) by TLC against spec/Trace_Hooks.tla: the events of this process (our drivers)
and of the repository's own test-suite run with the hooks on.  Each check passes the event kinds it owns."""
from __future__ import annotations

import json
import os
import shutil
import subprocess
import sys
from fractions import Fraction

from . import tlc

OWNER = {"Dealias": "C03", "Resample": "C15", "Trajectory": "C14", "Windows": "C14"}


def normalise(e):
    """hook event -> the record Trace_Hooks consumes (None: not checkable - traced values, errors that are C20's business)"""
    ev = e.get("ev")
    if ev == "Dealias":
        if e.get("fraction") is None or e.get("kept") is None:
            return None
        f = Fraction(e["fraction"]).limit_denominator(1000)
        if abs(float(f) - e["fraction"]) > 1e-9:
            return None
        return {"ev": ev, "D": e["D"], "N": e["N"], "fraction": [f.numerator, f.denominator], "kept": e["kept"]}
    if ev == "Resample":
        if e.get("shape") is None or e.get("outcome") != "returned":
            return None
        return {"ev": ev, "shape": e["shape"], "new_num_points": e["new_num_points"], "out_shape": e["out_shape"], "outcome": e["outcome"]}
    if ev == "Trajectory":
        if e.get("outcome") != "returned":
            return None
        lead = e["lead"] if e.get("lead") is not None else []
        if any(x is None for x in lead):
            return None
        return {"ev": ev, "op": e["op"], "n": e["n"], "include_init": e["include_init"], "lead": lead, "struct_same": bool(e["struct_same"]),
                "outcome": e["outcome"]}
    if ev == "Windows":
        if e.get("outcome") not in ("returned", "ValueError") or not e.get("T") or any(x is None for x in e["T"]):
            return None
        return {"ev": ev, "T": e["T"], "sub_len": e["sub_len"], "out_lead": e.get("out_lead") or [], "outcome": e["outcome"]}
    return None


def collect(path, kinds):
    evs = []
    if not os.path.exists(path):
        return evs
    for ln in open(path):
        try:
            e = json.loads(ln)
        except Exception:  # noqa: BLE001
            continue
        if e.get("ev") in kinds:
            r = normalise(e)
            if r is not None:
                evs.append(r)
    return evs


def validate(run, evs, label):
    """-> (accepted, first rejected event)"""
    if not evs:
        return True, None
    work = os.path.join(tlc.SCRATCH, f"hooktr.{os.getpid()}.{label}")
    os.makedirs(work, exist_ok=True)
    tf = os.path.join(work, "trace.ndjson")
    with open(tf, "w") as f:
        for e in evs:
            f.write(json.dumps(e) + "\n")
    cfg = os.path.join(work, "Trace_Hooks.cfg")
    tlc.write_cfg(cfg, spec="TSpec")
    res = tlc.run_tlc("Trace_Hooks", cfg, workers=1, env={"TRACE_FILE": tf}, timeout=1800, tag="Trace_Hooks")
    run.add_tlc(res, "Trace_Hooks/" + label)
    consumed = res.depth - 1
    tlc.cleanup(res)
    shutil.rmtree(work, ignore_errors=True)
    ok = consumed == len(evs)
    return ok, (None if ok else evs[consumed])


def run_repo_tests(tests, trace_path, timeout=3000):
    env = dict(os.environ, EXPONAX_VERIF="1", EXPONAX_VERIF_TRACE=trace_path, JAX_PLATFORMS="cpu")
    env.pop("JAX_ENABLE_X64", None)
    pr = subprocess.run([sys.executable, "-m", "pytest", "-q", "-x", "-p", "no:cacheprovider",
                         "--deselect", "tests/test_nonlinear_funs.py::TestGradientNormAdditional::test_2d"] + tests,
                        cwd=os.environ.get("VERIF_REPO") or "/repo", env=env, capture_output=True, text=True, timeout=timeout)
    return pr.stdout.strip().splitlines()[-1] if pr.stdout.strip() else "no output"


def check(run, pid, kinds, tests, selftest_event):
    """Validate the events of `kinds` from (a) this process, (b) the repository's tests `tests`; plus a binding self-test."""
    from exponax import _verif_hooks as hooks
    if not hooks.ENABLED:
        run.extra["hooks"] = "EXPONAX_VERIF hooks not active: hook-trace validation skipped"
        return
    work = os.path.join(tlc.SCRATCH, f"hook.{os.getpid()}.{pid}")
    os.makedirs(work, exist_ok=True)
    own = [r for r in (normalise(e) for e in hooks.EVENTS if e.get("ev") in kinds) if r is not None]
    sources = [("own drivers", own)]
    if tests:
        tp = os.path.join(work, "suite.ndjson")
        run.extra["repo_tests_with_hooks"] = run_repo_tests(tests, tp)
        sources.append(("repository tests", collect(tp, kinds)))
    summary = {}
    for label, evs in sources:
        # distinct events only (the same construction is logged thousands of times), capped
        seen, uniq = set(), []
        for e in evs:
            k = json.dumps(e, sort_keys=True)
            if k not in seen:
                seen.add(k)
                uniq.append(e)
        uniq = uniq[:4000]
        ok, bad = validate(run, uniq, label.replace(" ", "_"))
        summary[label] = {"events": len(evs), "distinct_validated": len(uniq)}
        run.traces += 1
        if not ok:
            run.violation({"kind": "hook-trace", "what": bad["ev"], "source": label}, {"rejected_event": bad})
    okb, _ = validate(run, [selftest_event], "selftest")
    if okb:
        raise RuntimeError("binding self-test failed: a corrupted hook event was accepted by Trace_Hooks")
    summary["selftest_corrupted_event_rejected"] = True
    run.extra["hook_trace_validation"] = summary
    shutil.rmtree(work, ignore_errors=True)
