"""The stepper zoo: every public stepper class (enumerated from the exports) with argument variants, for the metamorphic
and conservation checks."""
from __future__ import annotations

import numpy as np

from . import registry

VECTOR = {"Burgers", "KortewegDeVries", "KuramotoSivashinskyConservative", "GeneralConvectionStepper", "NormalizedConvectionStepper",
          "DifficultyConvectionStepper"}          # channels = D unless single_channel
PSEUDOSCALAR = {"NavierStokesVorticity", "KolmogorovFlowVorticity", "GeneralVorticityConvectionStepper"}
KOLMOGOROV = {"KolmogorovFlowVorticity", "KolmogorovFlowVelocity"}
ODD_ORDER_LINEAR = {"Advection", "AdvectionDiffusion", "Dispersion", "KortewegDeVries", "GeneralLinearStepper", "NormalizedLinearStepper",
                    "DifficultyLinearStepper", "DifficultyLinearStepperSimple", "Wave"}


def variants(name, D):
    """argument variants beyond the defaults"""
    v = [dict()]
    if name in VECTOR:
        v += [dict(single_channel=True), dict(conservative=True)]
        if D == 1:
            v = [dict(), dict(conservative=True)]
    if name == "KortewegDeVries" and D > 1:
        v.append(dict(advect_over_diffuse=True, diffuse_over_diffuse=True))
    if name == "Dispersion" and D > 1:
        v.append(dict(advect_on_diffusion=True))
    if name == "HyperDiffusion" and D > 1:
        v.append(dict(diffuse_on_diffuse=True))
    if name == "GeneralVorticityConvectionStepper":
        v.append(dict(injection_scale=0.7, injection_mode=2))
    if name in ("Burgers", "KuramotoSivashinsky", "NavierStokesVorticity", "NavierStokesVelocity") and D > 1:
        v.append(dict(dealiasing_fraction=1.0))          # legal extreme: the cutoff N//2 - 1 still removes the Nyquist mode
    if name in KOLMOGOROV:
        v = [dict(injection_mode=2)]
    return v


def grid_sizes(D, tier):
    if D == 1:
        return (12, 9) if tier == "quick" else (16, 12, 9, 15)
    if D == 2:
        return (8, 7) if tier == "quick" else (8, 7, 12, 9)
    return (6,) if tier == "quick" else (6, 7, 8)


def cases(tier, orders=(2,), dims=(1, 2, 3), names=None, all_variants=True):
    cls = registry.stepper_classes()
    for name in sorted(cls):
        if names is not None and name not in names:
            continue
        for D in registry.dims_of(name):
            if D not in dims:
                continue
            for N in grid_sizes(D, tier):
                for kw in (variants(name, D) if all_variants else [dict()]):
                    ords = orders if registry.has_order(cls[name]) else (None,)
                    for p in ords:
                        yield dict(name=name, D=D, N=N, kw=kw, order=p)


def build(c, L=2 * np.pi, dt=0.01):
    return registry.make(c["name"], c["D"], c["N"], L=L, dt=dt, order=c["order"], **c["kw"])


def white_noise(rng, C, D, N, amp=0.3):
    return rng.standard_normal((C,) + (N,) * D) * amp


def nyquist_free(ex, jnp, u):
    D, N = u.ndim - 1, u.shape[-1]
    uh = np.asarray(ex.fft(jnp.asarray(u))) * np.asarray(ex.spectral.oddball_filter_mask(D, N))
    return np.asarray(ex.ifft(jnp.asarray(uh), num_spatial_dims=D, num_points=N))


def band_limited(ex, jnp, u, cutoff):
    D, N = u.ndim - 1, u.shape[-1]
    uh = np.asarray(ex.fft(jnp.asarray(u))) * np.asarray(ex.spectral.low_pass_filter_mask(D, N, cutoff=cutoff))
    return np.asarray(ex.ifft(jnp.asarray(uh), num_spatial_dims=D, num_points=N))
