from __future__ import annotations

import argparse
import importlib
import os
import sys
import traceback


def main():
    ap = argparse.ArgumentParser()
    ap.add_argument("pid")
    ap.add_argument("--tier", default=os.environ.get("VERIF_TIER", "quick"), choices=["quick", "thorough"])
    ap.add_argument("--replay", default=None)
    ap.add_argument("--selftest", action="store_true")
    a = ap.parse_args()
    seed = int(os.environ.get("VERIF_SEED", "0") or 0)
    pid = a.pid.upper()
    try:
        mod = importlib.import_module(f"harness.checks.{pid.lower()}")
    except ModuleNotFoundError as ex:
        print(f"no check for {pid}: {ex}", file=sys.stderr)
        sys.exit(2)
    try:
        if a.replay:
            rc = mod.replay(a.replay)
        elif a.selftest:
            rc = mod.selftest(seed)
        else:
            rc = mod.run(a.tier, seed)
    except Exception:
        traceback.print_exc()
        print(f"[{pid}] MACHINERY FAILURE (exit 2)", file=sys.stderr)
        sys.exit(2)
    sys.exit(rc)


if __name__ == "__main__":
    main()
