"""Parser for TLA+ values as printed by TLC (-dump files, -simulate behaviour files, PrintT).

Mapping: integers -> int, strings -> str, TRUE/FALSE -> bool, <<...>> -> tuple,
{...} -> frozenset (or TLASet list if unhashable), [a |-> v] -> dict with str keys,
(k :> v @@ ...) -> dict with parsed keys, a..b -> range-as-tuple, identifiers -> str (model values).
"""
from __future__ import annotations


class ParseError(Exception):
    pass


def _freeze(v):
    if isinstance(v, dict):
        return tuple(sorted(((_freeze(k), _freeze(x)) for k, x in v.items()), key=repr))
    if isinstance(v, (list, tuple)):
        return tuple(_freeze(x) for x in v)
    if isinstance(v, (set, frozenset)):
        return frozenset(_freeze(x) for x in v)
    return v


class _P:
    def __init__(self, s: str):
        self.s = s
        self.i = 0
        self.n = len(s)

    def ws(self):
        s, n = self.s, self.n
        while self.i < n and s[self.i] in " \t\r\n":
            self.i += 1

    def peek(self, k=1):
        return self.s[self.i:self.i + k]

    def expect(self, tok):
        self.ws()
        if not self.s.startswith(tok, self.i):
            raise ParseError(f"expected {tok!r} at {self.i}: {self.s[self.i:self.i+40]!r}")
        self.i += len(tok)

    def value(self):
        self.ws()
        s = self.s
        c = s[self.i] if self.i < self.n else ""
        if c == "<" and self.peek(2) == "<<":
            self.i += 2
            items = self.items(">>")
            v = tuple(items)
        elif c == "{":
            self.i += 1
            items = self.items("}")
            try:
                v = frozenset(items)
            except TypeError:
                v = list(items)          # a set of records / functions: keep the members, as a list
        elif c == "[":
            self.i += 1
            v = {}
            self.ws()
            if self.peek() == "]":
                self.i += 1
            else:
                while True:
                    self.ws()
                    j = self.i
                    while self.i < self.n and (s[self.i].isalnum() or s[self.i] == "_"):
                        self.i += 1
                    key = s[j:self.i]
                    self.expect("|->")
                    v[key] = self.value()
                    self.ws()
                    if self.peek() == ",":
                        self.i += 1
                        continue
                    self.expect("]")
                    break
        elif c == "(":
            self.i += 1
            v = {}
            while True:
                k = self.value()
                self.expect(":>")
                x = self.value()
                try:
                    v[k] = x
                except TypeError:
                    v[_freeze(k)] = x
                self.ws()
                if self.peek(2) == "@@":
                    self.i += 2
                    continue
                self.expect(")")
                break
        elif c == '"':
            j = self.i + 1
            out = []
            while s[j] != '"':
                if s[j] == "\\":
                    j += 1
                out.append(s[j])
                j += 1
            self.i = j + 1
            v = "".join(out)
        elif c == "-" or c.isdigit():
            j = self.i
            self.i += 1
            while self.i < self.n and s[self.i].isdigit():
                self.i += 1
            v = int(s[j:self.i])
        elif c.isalpha() or c == "_":
            j = self.i
            while self.i < self.n and (s[self.i].isalnum() or s[self.i] == "_"):
                self.i += 1
            w = s[j:self.i]
            v = True if w == "TRUE" else False if w == "FALSE" else w
        else:
            raise ParseError(f"unexpected {c!r} at {self.i}: {s[self.i:self.i+40]!r}")
        # interval a..b
        self.ws()
        if isinstance(v, int) and not isinstance(v, bool) and self.peek(2) == "..":
            self.i += 2
            hi = self.value()
            v = frozenset(range(v, hi + 1))
        return v

    def items(self, close):
        out = []
        self.ws()
        if self.s.startswith(close, self.i):
            self.i += len(close)
            return out
        while True:
            out.append(self.value())
            self.ws()
            if self.peek() == ",":
                self.i += 1
                continue
            self.expect(close)
            return out


def parse_value(text: str):
    p = _P(text)
    v = p.value()
    p.ws()
    if p.i != p.n:
        raise ParseError(f"trailing text at {p.i}: {text[p.i:p.i+40]!r}")
    return v


def parse_state_body(body: str) -> dict:
    """body: '/\\ x = ...\n/\\ y = ...' -> {x: value, y: value}"""
    p = _P(body)
    st = {}
    while True:
        p.ws()
        if p.i >= p.n:
            break
        p.expect("/\\")
        p.ws()
        j = p.i
        while p.i < p.n and (p.s[p.i].isalnum() or p.s[p.i] == "_"):
            p.i += 1
        name = p.s[j:p.i]
        p.expect("=")
        st[name] = p.value()
    return st


def iter_dump_states(path: str, must_contain: str | None = None):
    """Yield one dict per state of a TLC '-dump' file (optionally only the states whose text contains a marker)."""
    buf = []

    def flush():
        txt = "".join(buf)
        if must_contain is None or must_contain in txt:
            return parse_state_body(txt)
        return None
    with open(path) as f:
        for line in f:
            if line.startswith("State ") and line.rstrip().endswith(":"):
                if buf:
                    st = flush()
                    if st is not None:
                        yield st
                buf = []
            elif line.strip():
                buf.append(line)
    if buf:
        st = flush()
        if st is not None:
            yield st


def parse_behaviour_file(path: str):
    """A file written by `tlc -simulate file=...`: returns list of (action_name, state dict)."""
    import re
    text = open(path).read()
    out = []
    # blocks: "\* <Action line ...>\nSTATE_n ==\n/\ ...\n\n"
    pat = re.compile(r"\\\*\s*<?([^\n>]*)>?\s*\nSTATE_(\d+)\s*==\s*\n(.*?)(?=\n\\\*|\n====|\Z)", re.S)
    for m in pat.finditer(text):
        head = m.group(1).strip()
        act = head.split()[0] if head else ""
        out.append((act, parse_state_body(m.group(3))))
    return out
