"""Public stepper classes, enumerated from the package exports at run time, and how to build them."""
from __future__ import annotations

import inspect

DIM_ONLY = {
    "NavierStokesVorticity": (2,), "KolmogorovFlowVorticity": (2,), "GeneralVorticityConvectionStepper": (2,),
    "NavierStokesVelocity": (3,), "KolmogorovFlowVelocity": (3,),
}
LINEAR = {"Advection", "Diffusion", "AdvectionDiffusion", "Dispersion", "HyperDiffusion", "Wave",
          "GeneralLinearStepper", "NormalizedLinearStepper", "DifficultyLinearStepper", "DifficultyLinearStepperSimple"}


def stepper_classes():
    import exponax as ex
    out = {}
    for mod in (ex.stepper, ex.stepper.generic, ex.stepper.reaction):
        for n in sorted(dir(mod)):
            o = getattr(mod, n)
            if inspect.isclass(o) and not n.startswith("_") and issubclass(o, ex.BaseStepper) and o is not ex.BaseStepper:
                out.setdefault(n, o)
    return out


def dims_of(name):
    return DIM_ONLY.get(name, (1, 2, 3))


def has_order(cls):
    return "order" in inspect.signature(cls.__init__).parameters


def takes_physical(cls):
    p = inspect.signature(cls.__init__).parameters
    return "domain_extent" in p


def make(name, D, N, *, L=1.0, dt=0.01, order=None, **kw):
    cls = stepper_classes()[name]
    if order is not None and has_order(cls):
        kw = dict(kw, order=order)
    if takes_physical(cls):
        return cls(D, L, N, dt, **kw)
    return cls(D, N, **kw)


def num_channels(name, D, **kw):
    """Channel count documented for the class."""
    if name in ("Burgers", "KortewegDeVries", "KuramotoSivashinskyConservative", "GeneralConvectionStepper",
                "NormalizedConvectionStepper", "DifficultyConvectionStepper"):
        return 1 if kw.get("single_channel", False) else D
    if name in ("NavierStokesVelocity", "KolmogorovFlowVelocity"):
        return 3
    if name in ("GrayScott", "Wave"):
        return 2
    return 1


# ----------------------------------------------------------------------------- linear part of every semi-linear class (spec: Symbols.tla)
SPEC_CLASS = {
    "Burgers": "Burgers", "KortewegDeVries": "KortewegDeVries", "KuramotoSivashinsky": "KuramotoSivashinsky",
    "KuramotoSivashinskyConservative": "KuramotoSivashinskyConservative",
    "NavierStokesVorticity": "NavierStokes", "KolmogorovFlowVorticity": "NavierStokes",
    "NavierStokesVelocity": "NavierStokes", "KolmogorovFlowVelocity": "NavierStokes",
    "FisherKPP": "FisherKPP", "AllenCahn": "AllenCahn", "CahnHilliard": "CahnHilliard", "SwiftHohenberg": "SwiftHohenberg",
    "GrayScott": "GrayScott",
}
SEMI_DN = [1012, 1009, 1016, 1008, 2006, 2005, 2008, 3004, 3005, 3006]


def ctor_defaults(cls):
    return {k: v.default for k, v in inspect.signature(cls.__init__).parameters.items() if v.default is not inspect._empty}


def _pval(name, args):
    v = 1.0
    for f in name.split("*"):
        v *= 1.0 if f == "one" else float(args[f])
    return v


def semi_lambda(name, D, N, tables, *, L=1.0, dt=0.01, **kw):
    """-> (lambda array of shape (E,)+wshape with E in {1, C}, dt_eff): the documented linear symbol of stepper `name`
    built with these arguments, from the TLC-generated term tables `tables` (harness.linear.load)."""
    import numpy as np
    from . import linear
    cls = stepper_classes()[name]
    args = dict(ctor_defaults(cls), **kw)
    omega = 2 * np.pi / L
    if name in SPEC_CLASS:
        sc = SPEC_CLASS[name]
        variants = [0]
        if sc == "KortewegDeVries":
            variants = [int(bool(args["advect_over_diffuse"])) + 2 * int(bool(args["diffuse_over_diffuse"]))]
        if sc == "GrayScott":
            variants = [0, 1]
        lams = []
        for v in variants:
            table = tables[(sc, v, D, N)]
            names = {c for terms in table.values() for c, _, _ in terms}
            params = {c: _pval(c[0], args) for c in names}
            lams.append(linear.symbol_array(D, N, table, params, omega))
        return np.stack(lams), dt
    # generic families
    if "linear_coefficients" in args:
        a, Le, dte = list(args["linear_coefficients"]), L, dt
    elif "normalized_linear_coefficients" in args:
        a, Le, dte = list(args["normalized_linear_coefficients"]), 1.0, 1.0
    elif "linear_difficulties" in args:
        g = list(args["linear_difficulties"])
        a = [g[0]] + [g[j] / (N ** j * 2 ** (j - 1) * D) for j in range(1, len(g))]
        Le, dte = 1.0, 1.0
    else:
        raise KeyError(name)
    table = tables[("GeneralLinear", 0, D, N)]
    params = {("a", j, 0): (a[j] if j < len(a) else 0.0) for j in range(0, 7)}
    return linear.symbol_array(D, N, table, params, 2 * np.pi / Le)[None], dte


def semilinear_names():
    return [n for n in sorted(stepper_classes()) if n not in LINEAR]
