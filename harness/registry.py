"""Public stepper classes, enumerated from the package exports at run time, and how to build them."""
from __future__ import annotations

import inspect

DIM_ONLY = {
    "NavierStokesVorticity": (2,), "KolmogorovFlowVorticity": (2,), "GeneralVorticityConvectionStepper": (2,),
    "NavierStokesVelocity": (3,), "KolmogorovFlowVelocity": (3,),
}
LINEAR = {"Advection", "Diffusion", "AdvectionDiffusion", "Dispersion", "HyperDiffusion", "Wave",
          "GeneralLinearStepper", "NormalizedLinearStepper", "DifficultyLinearStepper", "DifficultyLinearStepperSimple"}


def stepper_classes():
    import exponax as ex
    out = {}
    for mod in (ex.stepper, ex.stepper.generic, ex.stepper.reaction):
        for n in sorted(dir(mod)):
            o = getattr(mod, n)
            if inspect.isclass(o) and not n.startswith("_") and issubclass(o, ex.BaseStepper) and o is not ex.BaseStepper:
                out.setdefault(n, o)
    return out


def dims_of(name):
    return DIM_ONLY.get(name, (1, 2, 3))


def has_order(cls):
    return "order" in inspect.signature(cls.__init__).parameters


def takes_physical(cls):
    p = inspect.signature(cls.__init__).parameters
    return "domain_extent" in p


def make(name, D, N, *, L=1.0, dt=0.01, order=None, **kw):
    cls = stepper_classes()[name]
    if order is not None and has_order(cls):
        kw = dict(kw, order=order)
    if takes_physical(cls):
        return cls(D, L, N, dt, **kw)
    return cls(D, N, **kw)


def num_channels(name, D, **kw):
    """Channel count documented for the class."""
    if name in ("Burgers", "KortewegDeVries", "KuramotoSivashinskyConservative", "GeneralConvectionStepper",
                "NormalizedConvectionStepper", "DifficultyConvectionStepper"):
        return 1 if kw.get("single_channel", False) else D
    if name in ("NavierStokesVelocity", "KolmogorovFlowVelocity"):
        return 3
    if name in ("GrayScott", "Wave"):
        return 2
    return 1
