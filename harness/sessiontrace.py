"""Code -> specification for the composed machine (spec/Trace_Session.tla): sessions of public calls chosen HERE (not by TLC) are executed by
the library; every call is logged with its arguments and the returned state (canonical two-sided spectrum, rationalised); TLC consumes the log
event by event, each event being accepted iff the exact successor of spec/Session.tla equals what the library returned.  A rejected event is a
violation of the property that owns the operation; the session containing it is removed and the rest is validated again."""
from __future__ import annotations

import json
import os
import re
import shutil
from fractions import Fraction

import numpy as np

from . import session, tlc

MAXDEN = 20000
INVS = ["RealOK", "BandOK", "FilterOK", "ProjectOK", "DeriveOK", "OddballOK"]
L = session.L
SCALAR_TERMS = ["conv_sc_cons", "conv_sc_non", "gradnorm_fix", "poly2", "general"]


AMBIGUOUS = "ambiguous"


def _rat(x, tol):
    """Fraction with denominator <= MAXDEN within tol of x; None if there is none; AMBIGUOUS if tol is too coarse to single it out"""
    f = Fraction(float(x)).limit_denominator(MAXDEN)
    if abs(float(f) - x) > tol:
        return None
    if 4 * tol * f.denominator ** 2 >= 1:
        return AMBIGUOUS
    return f


def spectrum_of(u):
    """canonical two-sided spectrum of every channel of the real array u: [[p, re_n, re_d, im_n, im_d], ...] per channel; None if a coefficient
    is not a rational with a denominator <= MAXDEN; AMBIGUOUS if rounding noise and coefficients cannot be told apart (huge dynamic range)"""
    C, N, D = u.shape[0], u.shape[-1], u.ndim - 1
    out = []
    freq = np.fft.fftfreq(N, 1.0 / N).round().astype(int)
    top = max(1.0, float(np.max(np.abs(u))))
    tol = 1e-12 * top
    for c in range(C):
        uh = np.fft.fftn(u[c]) / N ** D
        mag = np.abs(uh)
        if np.any((mag > 1e-13 * top) & (mag < 1e-4 * top)):
            return AMBIGUOUS
        ch = []
        for idx in zip(*np.nonzero(mag >= 1e-4 * top)):
            z = uh[idx]
            re, im = _rat(z.real, tol), _rat(z.imag, tol)
            if re is AMBIGUOUS or im is AMBIGUOUS:
                return AMBIGUOUS
            if re is None or im is None:
                return None
            if re == 0 and im == 0:
                continue
            ch.append([[int(freq[i]) for i in idx], re.numerator, re.denominator, im.numerator, im.denominator])
        out.append(ch)
    return out


def nyq_free(spec, N):
    return N % 2 == 1 or all(2 * abs(k) < N for ch in spec for e in ch for k in e[0])


def _mode(rng, D, N):
    return [int(rng.integers(-(N // 2), (N - 1) // 2 + 1)) for _ in range(D)]


def gen_sessions(rng, ex, jnp, n_sessions, sizes, max_len=5):
    """-> list of sessions, each a list of events (the first one is `init`)"""
    sessions = []
    for si in range(n_sessions):
        kind, D, N = sizes[si % len(sizes)]
        C = {"s": 1, "v": D}[kind]
        jj = np.stack(np.meshgrid(*([np.arange(N)] * D), indexing="ij"))
        u = np.zeros((C,) + (N,) * D)
        for c in range(C):
            for _ in range(2):
                p = _mode(rng, D, N)
                a = [1.0, -0.5, 0.25, 2.0][int(rng.integers(4))]
                th = 2 * np.pi * sum(p[d] * jj[d] for d in range(D)) / N
                u[c] += a * (np.cos(th) if rng.integers(2) else np.sin(th))
        sp = spectrum_of(u)
        if sp is None or sp is AMBIGUOUS:
            continue
        evs = [{"op": "init", "D": D, "N": N, "st": sp, "unrat": False}]
        nl = 0
        for _ in range(int(rng.integers(2, max_len + 1))):
            nf = nyq_free(sp, N)
            ops = ["filter", "addmode", "advect", "advectn", "forced", "poisson", "resample", "spectrum", "metric", "coefs"]
            if C == 1:
                ops += ["derive"]
            if nl < 2:
                ops += ["apply", "rk"]
            if C > 1 and nf:
                ops += ["leray", "incomp"]
            if N % 2 == 0:
                ops += ["oddball"]
            if nf or N % 4 == 0:
                ops += ["interp"]
            op = ops[int(rng.integers(len(ops)))]
            e = {"op": op, "unrat": False, "st": []}
            terms = (SCALAR_TERMS + (["vort2d", "vort2d_kolm"] if D == 2 else [])) if C == 1 else (["conv_mc_cons", "conv_mc_non"] + (["rot3d"] if D == 3 else []))
            if op == "derive":
                e.update(d=int(rng.integers(1, D + 1)), m=int(rng.integers(1, 5)))
            elif op == "filter":
                e.update(cut=int(rng.integers(0, N // 2 + 2)))
            elif op == "apply":
                e.update(term=terms[int(rng.integers(len(terms)))])
                nl += 1
            elif op == "rk":
                e.update(term=terms[int(rng.integers(len(terms)))], p=int(rng.integers(1, 5)), via=["etdrk", "stepper"][int(rng.integers(2))])
                nl += 2
            elif op == "poisson":
                e.update(o=[2, 4][int(rng.integers(2))])
            elif op == "addmode":
                e.update(p=_mode(rng, D, N), trig=["cos", "sin"][int(rng.integers(2))], ch=int(rng.integers(1, C + 1)))
            elif op in ("advect", "advectn", "forced"):
                v = [int(rng.integers(0, 4)) for _ in range(D)]
                if not any(v):
                    v[int(rng.integers(D))] = 1
                e.update(v=v)
                if op == "advectn":
                    e.update(n=int(rng.integers(2, 5)), how=["repeat", "rollout", "substeps"][int(rng.integers(3))])
                if op == "forced":
                    e.update(p=_mode(rng, D, N), trig=["cos", "sin"][int(rng.integers(2))])
            elif op == "resample":
                M = int(rng.integers(3, 15 if D == 1 else 10 if D == 2 else 7))
                if M == N:
                    M += 1
                e.update(M=M)
            elif op == "interp":
                e.update(q=[int(rng.integers(-8, 9)) for _ in range(D)])
            elif op == "metric":
                lo = int(rng.integers(0, 3))
                e.update(lo=lo, hi=int(rng.integers(lo, N // 2 + 2)))
            # ---- the public call
            if op in session.OBSERVATIONS:
                ju = jnp.asarray(u)
                m = ex.metrics
                if op == "interp":
                    val = np.asarray(ex.FourierInterpolator(ju, domain_extent=L)(jnp.asarray(np.asarray(e["q"], dtype=float) * (L / 4))))
                    r = [_rat(v, 1e-12 * max(1.0, float(np.max(np.abs(u))))) for v in val]
                    if any(x is AMBIGUOUS for x in r):
                        break
                    if any(x is None for x in r):
                        evs.append(dict(e, unrat=True))          # the machine decides whether its own value has such a denominator
                        break
                    e["val"] = [[x.numerator, x.denominator] for x in r]
                elif op == "coefs":
                    val = np.asarray(ex.spectral.get_fourier_coefficients(ju, round=None))
                    top = max(1.0, float(np.max(np.abs(val))))
                    chans, state = [], "ok"
                    for c in range(val.shape[0]):
                        ch = []
                        for idx in zip(*np.nonzero(np.abs(val[c]) > 1e-9 * top)):
                            re, im = _rat(val[c][idx].real, 1e-12 * top), _rat(val[c][idx].imag, 1e-12 * top)
                            if re is AMBIGUOUS or im is AMBIGUOUS:
                                state = "ambiguous"
                            elif re is None or im is None:
                                state = "unrat" if state == "ok" else state
                            else:
                                ch.append([[int(i) for i in idx], re.numerator, re.denominator, im.numerator, im.denominator])
                        chans.append(ch)
                    if state == "ambiguous":
                        break
                    if state == "unrat":
                        evs.append(dict(e, unrat=True))
                        break
                    e["val"] = chans
                elif op == "spectrum":
                    val = np.asarray(ex.get_spectrum(ju, power=True))
                    r = [[_rat(v, 1e-12 * max(1.0, float(np.max(val)))) for v in ch] for ch in val]
                    if any(x is AMBIGUOUS for ch in r for x in ch):
                        break
                    if any(x is None for ch in r for x in ch):
                        evs.append(dict(e, unrat=True))
                        break
                    e["val"] = [[[x.numerator, x.denominator] for x in ch] for ch in r]
                else:
                    if any(abs(complex(Fraction(t[1], t[2]), Fraction(t[3], t[4]))) * N ** D < 1e-3 for ch in sp for t in ch):
                        continue          # the Fourier metrics drop transform values below 1e-5 (documented): stay well above the floor
                    vals = [float(m.MSE(ju)), float(m.fourier_MSE(ju, low=e["lo"], high=e["hi"])),
                            float(m.fourier_MSE(ju, domain_extent=L, derivative_order=1)) / L ** D]
                    r = [_rat(v, 1e-12 * max(1.0, max(vals))) for v in vals]
                    if any(x is AMBIGUOUS for x in r):
                        break
                    if any(x is None for x in r):
                        evs.append(dict(e, unrat=True))
                        break
                    e["mse"], e["band"], e["grad"] = [[x.numerator, x.denominator] for x in r]
                evs.append(e)
                continue
            u, N = session.apply_action(ex, jnp, D, N, u, e)
            u = np.asarray(u, dtype=float)
            if op == "resample":
                jj = np.stack(np.meshgrid(*([np.arange(N)] * D), indexing="ij"))
            sp2 = spectrum_of(u)
            if sp2 is AMBIGUOUS:
                break          # rounding noise and coefficients cannot be told apart any more: the session ends before this call is logged
            if sp2 is None:
                e["unrat"] = True
                evs.append(e)
                break
            e["st"] = sp = sp2
            evs.append(e)
        if len(evs) > 1:
            sessions.append(evs)
    return sessions


def validate(run, sessions, label, max_rounds=8):
    """-> list of (rejected event, session index); sessions whose exact evaluation leaves TLC's 32-bit integers are dropped (counted)"""
    rejected, dropped = [], 0
    live = list(range(len(sessions)))
    states = 0
    for _ in range(max_rounds):
        if not live:
            break
        evs, owner_of = [], []
        for si in live:
            for e in sessions[si]:
                evs.append(e)
                owner_of.append(si)
        work = os.path.join(tlc.SCRATCH, f"sesstr.{os.getpid()}.{label}")
        os.makedirs(work, exist_ok=True)
        tf = os.path.join(work, "trace.ndjson")
        with open(tf, "w") as f:
            for e in evs:
                f.write(json.dumps(e) + "\n")
        cfg = os.path.join(work, "Trace_Session.cfg")
        tlc.write_cfg(cfg, spec="TSpec", invariants=INVS,
                      constants={"Kinds": "{}", "Sizes": "{}", "MaxNl": 0, "MaxRK": 0, "Seeds": 0, "MaxLen": 0})
        res = tlc.run_tlc("Trace_Session", cfg, workers=1, env={"TRACE_FILE": tf}, timeout=3000, tag="Trace_Session", tolerate_overflow=True)
        run.add_tlc(res, "Trace_Session/" + label)
        shutil.rmtree(work, ignore_errors=True)
        if getattr(res, "overflow", False):
            ls = re.findall(r"/\\ l = (\d+)", res.out)
            tlc.cleanup(res)
            if not ls:
                raise tlc.MachineryError("Trace_Session: overflow without a state")
            k = min(int(ls[-1]), len(evs)) - 1          # the event being consumed when the evaluation overflowed
            live.remove(owner_of[k])
            dropped += 1
            continue
        if res.violated:
            run.violation({"kind": "spec", "invariant": res.violated, "what": "Trace_Session"}, {"trace": (res.trace_text or "")[-3000:]})
            tlc.cleanup(res)
            break
        consumed = res.depth - 1
        tlc.cleanup(res)
        if consumed >= len(evs):
            break
        rejected.append((evs[consumed], owner_of[consumed]))
        live.remove(owner_of[consumed])
    run.extra.setdefault("session_traces", {})[label] = {"sessions": len(sessions), "events": sum(len(s) for s in sessions),
                                                         "rejected": len(rejected), "dropped_32bit_overflow": dropped}
    return rejected


def run_for(run, tier, seed, ex, jnp, owned, pid):
    rng = np.random.default_rng(seed + 77)
    sizes = [("s", 1, 8), ("s", 1, 9), ("s", 2, 6), ("v", 2, 6), ("s", 2, 5), ("v", 2, 5), ("s", 1, 12), ("s", 2, 8)]
    if tier != "quick":
        sizes += [("s", 1, 15), ("v", 2, 8), ("s", 3, 4), ("s", 3, 5), ("v", 3, 6), ("s", 2, 9)]
    sessions = gen_sessions(rng, ex, jnp, 32 if tier == "quick" else 400, sizes)
    rejected = validate(run, sessions, pid)
    for e, si in rejected:
        if e["op"] in owned:
            ops = [{k: v for k, v in x.items() if k not in ("st", "val")} for x in sessions[si]]
            run.violation({"kind": "session-trace", "what": e["op"], "D": sessions[si][0]["D"], "mode": "event rejected by Trace_Session"},
                          {"rejected_event": {k: v for k, v in e.items() if k not in ("st", "val")}, "session": ops})
    run.traces += len(sessions)
    # binding self-test: one corrupted coefficient must be rejected
    good = next((s for s in sessions if len(s) >= 2 and s[1]["st"] and s[1]["st"][0]), None)
    if good is not None:
        bad = json.loads(json.dumps(good[:2]))
        bad[1]["st"][0][0][1] += 1
        if not validate(run, [bad], pid + "_selftest"):
            raise RuntimeError("binding self-test failed: a corrupted session event was accepted by Trace_Session")
        run.extra["session_traces"]["selftest_corrupted_event_rejected"] = True
