"""Numerical helpers shared by the conformance drivers (the 'measuring instrument')."""
from __future__ import annotations

import itertools
import os
from fractions import Fraction

import numpy as np

_SET = False


def setup_jax(x64: bool = True):
    global _SET
    os.environ.setdefault("JAX_PLATFORMS", "cpu")
    import jax
    if not _SET:
        jax.config.update("jax_enable_x64", bool(x64))
        _SET = True
    return jax


def fq(v) -> Fraction:
    """TLA rational <<n, d>> -> Fraction"""
    return Fraction(v[0], v[1])


def cq(v) -> complex:
    """TLA Gaussian rational record -> complex"""
    return complex(v["re"][0] / v["re"][1], v["im"][0] / v["im"][1])


def cfrac(v):
    return (fq(v["re"]), fq(v["im"]))


def as_map(v):
    """TLA function value with tuple keys, possibly the empty tuple -> dict"""
    if isinstance(v, dict):
        return v
    if isinstance(v, tuple) and len(v) == 0:
        return {}
    if isinstance(v, tuple):  # a sequence = function 1..n
        return {i + 1: x for i, x in enumerate(v)}
    raise TypeError(v)


def wshape(D, N):
    return (N,) * (D - 1) + (N // 2 + 1,)


def grid_np(D, N, L=1.0):
    """x_j = j L / N, 'ij' indexing, shape (D, N, ..., N). Independent of exponax.make_grid."""
    ax = np.arange(N) * (L / N)
    return np.stack(np.meshgrid(*([ax] * D), indexing="ij"))


def synth(D, N, ts: dict, L=1.0):
    """Real field sum_p c_p exp(i w p.x) on the grid from a two-sided sparse spectrum {p: complex}."""
    jj = np.stack(np.meshgrid(*([np.arange(N)] * D), indexing="ij"))  # integer grid, phase = 2 pi p.j / N
    u = np.zeros((N,) * D, dtype=complex)
    for p, c in ts.items():
        ph = np.zeros((N,) * D)
        for d in range(D):
            ph = ph + p[d] * jj[d]
        u += c * np.exp(2j * np.pi * ph / N)
    return u


def dense_half(D, N, sparse: dict):
    a = np.zeros(wshape(D, N), dtype=complex)
    for s, c in sparse.items():
        a[tuple(s)] = c
    return a


def all_idx(D, N):
    return itertools.product(*[range(n) for n in wshape(D, N)])


def maxabs(a):
    a = np.asarray(a)
    return float(np.max(np.abs(a))) if a.size else 0.0


def rationalise(x: float, max_den=10_000, tol=1e-9):
    f = Fraction(x).limit_denominator(max_den)
    if abs(float(f) - x) <= tol * max(1.0, abs(x)):
        return f
    return None
