"""Shared ETDRK machinery: run MC_ETDRK, decode the tableau (ring elements over Q[E,z,1/z]), evaluate with mpmath,
predict stage values, record stage traces of real steppers, validate them with TLC (Trace_ETDRK)."""
from __future__ import annotations

import json
import math
import os
import shutil
from fractions import Fraction

import numpy as np

from . import tlc
from .num import fq
from .tlaval import iter_dump_states

INVS = ["CountOK", "RowSumOK", "ExplicitOK", "WeightsOK", "LimitOK", "OrderOK", "ButcherOK", "Order0OK"]


def run_model(run):
    work = os.path.join(tlc.SCRATCH, f"etdrk.{os.getpid()}")
    os.makedirs(work, exist_ok=True)
    cfg = os.path.join(work, "MC_ETDRK.cfg")
    tlc.write_cfg(cfg, spec="Spec", constants={"Orders": "{0,1,2,3,4}"}, invariants=INVS, properties=["Termination"])
    res = tlc.run_tlc("MC_ETDRK", cfg, workers=4, dump=True, timeout=900)
    run.add_tlc(res, "MC_ETDRK")
    if not res.ok:
        run.violation({"kind": "spec", "invariant": res.violated}, {"trace": res.trace_text})
    tab = {}
    for st in iter_dump_states(res.dump):
        if st["mode"] == "sym" and st["pc"] == "done":
            tab[st["p"]] = [decode_val(v) for v in st["vals"]]
    tlc.cleanup(res)
    shutil.rmtree(work, ignore_errors=True)
    return tab


def decode_ring(r):
    """TLA ring element -> list of (Fraction q, eExp, zExp)"""
    if isinstance(r, tuple) and len(r) == 0:
        return []
    return [(fq(q), k[0], k[1]) for k, q in r.items()]


def decode_val(v):
    return {"u": decode_ring(v["u"]), "n": [decode_ring(x) for x in v["n"]]}


def limit0(ring):
    """value at z = 0 (the singularity is removable: checked by TLC's LimitOK): coefficient of z^0 of the series"""
    tot = Fraction(0)
    for q, e, zp in ring:
        m = -zp
        if m < 0:
            continue
        tot += q * (Fraction(e, 2) ** m if m > 0 else 1) / math.factorial(m)
    return tot


def eval_ring(ring, z, mp):
    """Evaluate Sum q E^e z^zp at complex z with mpmath at a precision that survives the cancellation near 0."""
    if not ring:
        return mp.mpc(0)
    if z == 0:
        return mp.mpc(float(limit0(ring).numerator)) / float(limit0(ring).denominator) if limit0(ring) != 0 else mp.mpc(0)
    zz = mp.mpc(z)
    E = mp.exp(zz / 2)
    tot = mp.mpc(0)
    for q, e, zp in ring:
        tot += (mp.mpf(q.numerator) / q.denominator) * (E ** e) * (zz ** zp)
    return tot


def eval_ring_array(ring, z_arr):
    """numpy complex array -> numpy complex array (mpmath, 60 digits + extra when |z| is tiny)"""
    import mpmath as mp
    out = np.zeros(z_arr.shape, dtype=complex)
    flat = z_arr.ravel()
    res = out.ravel()
    cache = {}
    for i, z in enumerate(flat):
        zc = complex(z)
        if zc in cache:
            res[i] = cache[zc]
            continue
        a = abs(zc)
        mp.mp.dps = 60 if (a == 0 or a > 1e-3) else 60 + int(3 * -math.log10(a)) + 5
        v = complex(eval_ring(ring, zc, mp))
        cache[zc] = v
        res[i] = v
    return out


class Tableau:
    """Numerical instance of the specification's tableau at given z = dt*lambda (array)."""

    def __init__(self, tab, p, z):
        self.p = p
        self.z = np.asarray(z, dtype=complex)
        rows = tab[p]
        self.rows = []
        for r in rows[1:]:
            self.rows.append({"u": eval_ring_array(r["u"], self.z), "n": [eval_ring_array(x, self.z) for x in r["n"]]})

    def stage(self, i, u, outs, dt):
        """value of stage i (1-based; stage p (or 1 for p=0) is the result) from u and the list of N outputs."""
        r = self.rows[i - 1]
        v = r["u"] * u
        for m, a in enumerate(r["n"]):
            if m < len(outs) and np.any(a != 0):
                v = v + dt * a * outs[m]
        return v


def ulps(err, scale):
    return int(min(1e9, err / (2.220446049250313e-16 * max(scale, 1e-300))))


def validate_traces(run, traces, max_ulps, label="etdrk"):
    work = os.path.join(tlc.SCRATCH, f"etdrktr.{os.getpid()}.{label}")
    os.makedirs(work, exist_ok=True)
    tf = os.path.join(work, "traces.json")
    json.dump(traces, open(tf, "w"))
    cfg = os.path.join(work, "Trace_ETDRK.cfg")
    tlc.write_cfg(cfg, spec="TSpec", constants={"Orders": "{0,1,2,3,4}", "MaxUlps": max_ulps}, invariants=["TInv"])
    res = tlc.run_tlc("Trace_ETDRK", cfg, workers=1, dump=True, env={"TRACE_FILE": tf}, timeout=1800, tag="Trace_ETDRK")
    run.add_tlc(res, "Trace_ETDRK/" + label)
    best = {}
    for st in iter_dump_states(res.dump):
        best[st["tid"]] = max(best.get(st["tid"], 0), st["l"])
    out = []
    for k, tr in enumerate(traces, start=1):
        out.append((best.get(k, 1) == len(tr["events"]) + 1, best.get(k, 1) - 1))
    if not res.ok:
        run.violation({"kind": "trace-spec-invariant", "invariant": res.violated}, {"trace": res.trace_text})
    tlc.cleanup(res)
    shutil.rmtree(work, ignore_errors=True)
    return out


class NonlinRecorder:
    """Wraps __call__ of every BaseNonlinearFun subclass (outermost call only) to record (input, output)."""

    def __init__(self, ex):
        self.ex = ex
        self.calls = []
        self.objs = []
        self.depth = 0
        self.saved = {}

    def __enter__(self):
        base = self.ex.nonlin_fun.BaseNonlinearFun

        def subclasses(c):
            out = []
            for s in c.__subclasses__():
                out.append(s)
                out += subclasses(s)
            return out
        rec = self
        for cls in subclasses(base):
            if "__call__" in cls.__dict__:
                orig = cls.__dict__["__call__"]
                self.saved[cls] = orig

                def make(orig):
                    def wrapped(self_, u_hat):
                        rec.depth += 1
                        try:
                            out = orig(self_, u_hat)
                        finally:
                            rec.depth -= 1
                        if rec.depth == 0:
                            rec.calls.append((np.asarray(u_hat), np.asarray(out)))
                            rec.objs.append(self_)
                        return out
                    return wrapped
                cls.__call__ = make(orig)
        return self

    def __exit__(self, *a):
        for cls, orig in self.saved.items():
            cls.__call__ = orig
        self.saved = {}


def stage_trace(tab, p, stepper_step_fourier, u_hat, lam, dt, rec: NonlinRecorder):
    """Run one eager step, return the trace events (ulps residuals against the tableau prediction) and diagnostics."""
    rec.calls.clear()
    out = np.asarray(stepper_step_fourier(u_hat))
    calls = list(rec.calls)
    z = np.broadcast_to(np.asarray(lam) * dt, np.asarray(u_hat).shape)
    T = Tableau(tab, p, z)
    u = np.asarray(u_hat)
    events = [{"ev": "Begin"}]
    outs = []
    diag = []
    for jdx, (cin, cout) in enumerate(calls, start=1):
        if jdx > max(p, 1) + 2:
            break
        pred = u if jdx == 1 else (T.stage(jdx - 1, u, outs, dt) if jdx - 1 <= len(T.rows) else None)
        if pred is None or cin.shape != pred.shape:
            events.append({"ev": "EvalN", "j": jdx, "in_ulps": 10 ** 9})
        else:
            scale = float(np.max(np.abs(pred))) + float(np.max(np.abs(u)))
            err = float(np.max(np.abs(cin - pred)))
            events.append({"ev": "EvalN", "j": jdx, "in_ulps": ulps(err, scale)})
            diag.append(err / max(scale, 1e-300))
        outs.append(cout)
    pred = T.stage(max(p, 1), u, outs, dt) if len(outs) >= p else None
    if pred is None or pred.shape != out.shape:
        events.append({"ev": "End", "out_ulps": 10 ** 9})
    else:
        scale = float(np.max(np.abs(pred))) + float(np.max(np.abs(u)))
        err = float(np.max(np.abs(out - pred)))
        events.append({"ev": "End", "out_ulps": ulps(err, scale)})
        diag.append(err / max(scale, 1e-300))
    return events, diag
