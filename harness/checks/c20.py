"""C20 Malformed states and unsupported configurations are rejected, not accepted."""
from __future__ import annotations

import json
import os
import shutil
import subprocess
import sys

import numpy as np

from .. import registry, tlc
from ..evidence import Run
from ..num import setup_jax
from ..tlaval import iter_dump_states

PID = "C20"


def outcome_of(fn):
    try:
        out = fn()
        return "returned", out
    except ValueError:
        return "ValueError", None
    except Exception as e:  # noqa: BLE001
        return type(e).__name__, None


def check_shapes(run, states, ex, jnp, tier):
    """states: TLC states (kind, D, N, C, shape, mutation, decision). Every public class whose (D, C) matches is driven."""
    classes = registry.stepper_classes()
    built = {}

    def get(name, D, N):
        k = (name, D, N)
        if k not in built:
            try:
                built[k] = registry.make(name, D, N, L=1.0, dt=0.01)
            except Exception as e:  # noqa: BLE001
                built[k] = None
                run.extra.setdefault("uncovered", []).append(f"{name} D={D} N={N}: {repr(e)[:100]}")
        return built[k]

    byconf = {}
    for st in states:
        byconf.setdefault((st["kind"], st["D"], st["N"], st["C"]), []).append(st)
    nsamp = 0
    for (kind, D, N, C), sts in sorted(byconf.items()):
        targets = []
        if kind == "poisson":
            if C == 1:
                targets = [("Poisson", ex.poisson.Poisson(D, 1.0, N)), ("Poisson4", ex.poisson.Poisson(D, 1.0, N, order=4))]
        else:
            for name in sorted(classes):
                if D not in registry.dims_of(name):
                    continue
                if tier == "quick" and D == 3 and N != min(k[2] for k in byconf) and name not in registry.DIM_ONLY:
                    continue
                s = get(name, D, N)
                if s is None or s.num_channels != C:
                    continue
                if kind == "repeated":
                    # the decision does not depend on the number of sub-steps (MC_Validate): one, two and three sub-steps, and a nested wrapper
                    rich = tier != "quick" or sorted(classes).index(name) % 5 == 0
                    for m in ((1, 2, 3) if rich else (1, 2)):
                        targets.append((f"{name}x{m}", ex.RepeatedStepper(s, m)))
                    if rich:
                        targets.append((f"{name}x2x1", ex.RepeatedStepper(ex.RepeatedStepper(s, 2), 1)))
                    # the forcing wrapper is a stepper of signature (u, f): the same decision on the state (forcing of the state's shape)
                    targets.append((f"Forced({name})", (lambda u, fs=ex.ForcedStepper(s): fs(u, jnp.zeros_like(u)))))
                    continue
                targets.append((name, s))
        for name, obj in targets:
            for st in sts:
                shape = tuple(st["shape"])
                want = st["decision"]
                run.case((kind, name, D, N, st["mutation"], shape))
                oc, out = outcome_of(lambda: obj(jnp.zeros(shape)))
                key = {"kind": "shape", "target": kind, "cls": name, "D": D, "N": N, "mutation": st["mutation"]}
                if want == "accept":
                    if oc != "returned" or tuple(out.shape) != shape:
                        run.violation(dict(key, what="well-formed state not accepted"), {"shape": list(shape), "outcome": oc})
                else:
                    if oc != "ValueError":
                        run.violation(dict(key, what="malformed state not rejected with ValueError"),
                                      {"shape": list(shape), "outcome": oc, "out_shape": None if out is None else list(out.shape)})
                    # the decision is taken on the shape, which is known while tracing: the same call under jit and from inside a scan
                    if (hash(name) + D + N) % 3 == 0 or tier != "quick":
                        import jax as _jax
                        for how, fn in (("jit", lambda: _jax.jit(lambda v: obj(v))(jnp.zeros(shape))),
                                        ("rollout", lambda: ex.rollout(obj, 2)(jnp.zeros(shape)))):
                            oc2, out2 = outcome_of(fn)
                            if oc2 != "ValueError":
                                run.violation(dict(key, what=f"malformed state not rejected with ValueError under {how}"),
                                              {"shape": list(shape), "outcome": oc2, "out_shape": None if out2 is None else list(out2.shape)})
                if nsamp < 4 and st["mutation"] != "none":
                    run.sample({"target": kind, "cls": name, "D": D, "N": N, "expected_shape": [C] + [N] * D, "mutation": st["mutation"],
                                "shape": list(shape), "spec_decision": want, "outcome": oc})
                    nsamp += 1


def exec_row(r, ex, jnp):
    """Execute one row of the restriction table against the real API; returns the outcome string."""
    import jax
    t = r[0]
    key = jax.random.PRNGKey(0)
    if t == "class_dim":
        name, D = r[1], r[2]
        if name in registry.stepper_classes():
            # the decision does not depend on the order of the time integrator (0 = linear part only ... 4): every order must give the same outcome
            cls_ = registry.stepper_classes()[name]
            outs = [outcome_of(lambda: registry.make(name, D, 8, L=1.0, dt=0.01))[0]]
            if registry.has_order(cls_):
                outs += [outcome_of(lambda o=o: registry.make(name, D, 8, L=1.0, dt=0.01, order=o))[0] for o in (0, 1, 4)]
            return outs[0] if len(set(outs)) == 1 else "order-dependent: " + "/".join(outs)
        if name == "RandomSineWaves1d":
            return outcome_of(lambda: ex.ic.RandomSineWaves1d(D))[0]
        cls = getattr(ex.nonlin_fun, name)
        dop = ex.spectral.build_derivative_operator(D, 1.0, 8)
        kw = dict(derivative_operator=dop, dealiasing_fraction=2 / 3)
        if "Kolmogorov" in name:
            kw.update(injection_mode=2, injection_scale=1.0)
        return outcome_of(lambda: cls(D, 8, **kw))[0]
    dop = ex.spectral.build_derivative_operator(2, 1.0, 8)
    if t == "laplace_order":
        return outcome_of(lambda: ex.spectral.build_laplace_operator(dop, order=r[1]))[0] if r[1] >= 0 else \
            outcome_of(lambda: ex.spectral.build_laplace_operator(jnp.where(dop == 0, 1.0, dop), order=r[1]))[0]
    if t == "gip_order":
        d2 = jnp.where(dop == 0, 1.0, dop) if r[1] < 0 else dop
        return outcome_of(lambda: ex.spectral.build_gradient_inner_product_operator(d2, jnp.ones(2), order=r[1]))[0]
    if t == "gip_velocity_len":
        d = ex.spectral.build_derivative_operator(r[1], 1.0, 6)
        return outcome_of(lambda: ex.spectral.build_gradient_inner_product_operator(d, jnp.ones(r[2]), order=1))[0]
    if t == "nonlinear_coefficients_len":
        return outcome_of(lambda: ex.stepper.generic.GeneralNonlinearStepper(1, 1.0, 8, 0.01, nonlinear_coefficients=tuple([0.1] * r[1])))[0]
    if t == "scaling_mode":
        return outcome_of(lambda: ex.spectral.build_scaling_array(1, 8, mode=r[1]))[0]
    if t == "ifft_num_points":
        D, given = r[1], r[2]
        uh = ex.fft(jnp.zeros((1,) + (6,) * D))
        return outcome_of(lambda: ex.ifft(uh, num_spatial_dims=D, num_points=6) if given else ex.ifft(uh, num_spatial_dims=D))[0]
    if t == "make_incompressible_channels":
        return outcome_of(lambda: ex.spectral.make_incompressible(jnp.zeros((r[2],) + (6,) * r[1])))[0]
    if t == "convection_channels":
        D, C, sc = r[1], r[2], r[3]
        d = ex.spectral.build_derivative_operator(D, 1.0, 6)
        res = []
        for cons in (False, True):
            f = ex.nonlin_fun.ConvectionNonlinearFun(D, 6, derivative_operator=d, dealiasing_fraction=2 / 3, scale=1.0,
                                                     single_channel=sc, conservative=cons)
            res.append(outcome_of(lambda: f(ex.fft(jnp.zeros((C,) + (6,) * D))))[0])
        return res[0] if res[0] == res[1] else "/".join(res)
    if t == "metric_mode":
        fam, mode, ref = r[1], r[2], r[3]
        if fam == "fourier" and mode == "symmetric":
            return "n/a"
        u = jnp.ones((1, 8))
        fn = ex.metrics.spatial_norm if fam == "spatial" else ex.metrics.fourier_norm
        return outcome_of(lambda: fn(u, u * 2 if ref else None, mode=mode))[0]
    if t == "ic_flags":
        zm, so, mo = r[1], r[2], r[3]
        res = set()
        for ctor in (lambda: ex.ic.GaussianRandomField(1, zero_mean=zm, std_one=so, max_one=mo),
                     lambda: ex.ic.DiffusedNoise(1, zero_mean=zm, std_one=so, max_one=mo),
                     lambda: ex.ic.RandomDiscontinuities(1, zero_mean=zm, std_one=so, max_one=mo),
                     lambda: ex.ic.GaussianRandomField(2, zero_mean=zm, std_one=so, max_one=mo)):
            oc, gen = outcome_of(ctor)
            if oc == "returned":
                oc = outcome_of(lambda: gen(8, key=key))[0]
            res.add(oc)
        return res.pop() if len(res) == 1 else "/".join(sorted(res))
    if t == "offset_flags":
        off, so, mo = r[1], r[2], r[3]
        rng_ = (0.5, 0.5) if off else (0.0, 0.0)
        res = set()
        for ctor in (lambda: ex.ic.RandomTruncatedFourierSeries(1, offset_range=rng_, std_one=so, max_one=mo),
                     lambda: ex.ic.RandomTruncatedFourierSeries(2, offset_range=(-0.5, 0.5) if off else (0.0, 0.0), std_one=so, max_one=mo),
                     lambda: ex.ic.RandomSineWaves1d(1, offset_range=rng_, std_one=so, max_one=mo),
                     lambda: ex.ic.SineWaves1d(1.0, (1.0,), (1,), (0.0,), offset=0.5 if off else 0.0, std_one=so, max_one=mo)):
            oc, gen = outcome_of(ctor)
            res.add(oc)
        return res.pop() if len(res) == 1 else "/".join(sorted(res))
    if t == "sine_lengths":
        return outcome_of(lambda: ex.ic.SineWaves1d(1.0, tuple([1.0] * r[1]), tuple([1] * r[2]), tuple([0.0] * r[3])))[0]
    if t == "windows":
        return outcome_of(lambda: ex.stack_sub_trajectories(jnp.zeros((r[1], 1, 4)), r[2]))[0]
    if t == "poisson_order":
        return outcome_of(lambda: ex.poisson.Poisson(r[1], 1.0, 6, order=r[2]))[0]
    if t == "operator_shape":
        D, C, m = r[1], r[2], r[3]
        N = 6
        W = (N,) * (D - 1) + (N // 2 + 1,)
        if m.startswith("singleton_axis_") and int(m[-1]) > D - 1:
            return "n/a"                      # no such leading spatial axis in this dimension
        shape = {"per_channel": (C,) + W, "shared": (1,) + W, "one_channel_too_many": (C + 1,) + W, "physical_last_axis": (C,) + (N,) * D,
                 "no_channel_axis": W, "extra_axis": (C, 1) + W, "singleton_last_axis": (C,) + W[:-1] + (1,), "all_singleton": (1,) * (D + 1)}.get(m)
        if shape is None:
            i = int(m[-1])
            shape = (C,) + tuple(1 if a == i - 1 else n for a, n in enumerate(W))

        class _Custom(ex.BaseStepper):
            op_shape: tuple

            def __init__(self):
                self.op_shape = shape
                super().__init__(D, 1.0, N, 0.1, num_channels=C, order=2)

            def _build_linear_operator(self, derivative_operator):
                return -jnp.ones(self.op_shape, dtype=derivative_operator.dtype)

            def _build_nonlinear_fun(self, derivative_operator):
                return ex.nonlin_fun.ZeroNonlinearFun(D, N)
        oc, st = outcome_of(_Custom)
        if oc == "returned":
            oc2, out = outcome_of(lambda: st(jnp.ones((C,) + (N,) * D)))
            if oc2 != "returned" or tuple(out.shape) != (C,) + (N,) * D:
                return "constructed but unusable: " + oc2
        return oc
    return "unknown-row"


def validate_hook_trace(run, path, label):
    """TLC (Trace_Validate) over a NDJSON file of hook events; returns (accepted, n_events, first rejected event)."""
    evs = []
    for ln in open(path):
        e = json.loads(ln)
        if e.get("ev") == "Validate" and e.get("shape") is not None and e.get("D") is not None:
            evs.append({"kind": e["kind"], "D": e["D"], "N": e["N"], "C": e["C"] if e["C"] is not None else 1, "shape": e["shape"],
                        "outcome": e["outcome"], "out_shape": e["out_shape"] if e["out_shape"] is not None else []})
    if not evs:
        return True, 0, None
    work = os.path.join(tlc.SCRATCH, f"c20tr.{os.getpid()}.{label}")
    os.makedirs(work, exist_ok=True)
    tf = os.path.join(work, "trace.ndjson")
    with open(tf, "w") as f:
        for e in evs:
            f.write(json.dumps(e) + "\n")
    cfg = os.path.join(work, "Trace_Validate.cfg")
    tlc.write_cfg(cfg, spec="TSpec", constants={"Ns": "{3}", "MaxC": 3})
    res = tlc.run_tlc("Trace_Validate", cfg, workers=1, env={"TRACE_FILE": tf}, timeout=1800, tag="Trace_Validate")
    run.add_tlc(res, "Trace_Validate/" + label)
    consumed = res.depth - 1          # one state per consumed event + the initial state
    tlc.cleanup(res)
    shutil.rmtree(work, ignore_errors=True)
    ok = consumed == len(evs)
    return ok, len(evs), (None if ok else evs[consumed])


def run(tier: str, seed: int) -> int:
    run_ = Run(PID, tier, seed)
    setup_jax(True)
    import jax.numpy as jnp
    import exponax as ex
    from exponax import _verif_hooks as hooks
    work = os.path.join(tlc.SCRATCH, f"c20.{os.getpid()}")
    os.makedirs(work, exist_ok=True)
    cfg = os.path.join(work, "MC_Validate.cfg")
    tlc.write_cfg(cfg, constants={"Ns": "{4,5}" if tier == "quick" else "{4,5,8}", "MaxC": 3}, invariants=["OneAccepted", "MutantsRejected", "PoissonOK"])
    res = tlc.run_tlc("MC_Validate", cfg, workers=4, dump=True, timeout=900)
    run_.add_tlc(res, "MC_Validate")
    if not res.ok:
        run_.violation({"kind": "spec", "invariant": res.violated}, {"trace": res.trace_text})
    states = list(iter_dump_states(res.dump))
    table = tlc.extract_printed(res.out, "TABLE")[0]
    tlc.cleanup(res)
    # (A) shape decisions, with the hooks recording every __call__ decision of this very run
    trace_path = os.path.join(work, "own_trace.ndjson")
    os.environ["EXPONAX_VERIF_TRACE"] = trace_path
    check_shapes(run_, states, ex, jnp, tier)
    os.environ.pop("EXPONAX_VERIF_TRACE", None)
    # (A) restriction table
    for row, want in sorted(table.items(), key=repr):
        run_.case(("row",) + tuple(row))
        got = exec_row(row, ex, jnp)
        if got == "n/a":
            continue
        if (want == "ok" and got != "returned") or (want == "ValueError" and got != "ValueError"):
            run_.violation({"kind": "restriction", "row": list(row), "what": str(row[0])}, {"spec": want, "outcome": got})
    run_.sample({"restriction_rows": len(table), "example": [list(k) for k in list(table)[:3]]})
    # (B) the decisions observed by the hooks, validated by TLC
    if hooks.ENABLED and os.path.exists(trace_path):
        ok, n, bad = validate_hook_trace(run_, trace_path, "own")
        run_.traces += 1
        run_.extra["own_run_validate_events"] = n
        if not ok:
            run_.violation({"kind": "hook-trace", "source": "own drivers"}, {"rejected_event": bad})
        # the repository's own tests, run with hooks on (subset in the quick tier)
        suite_trace = os.path.join(work, "suite_trace.ndjson")
        tests = ["tests/test_builtin_solvers.py", "tests/test_repeated_stepper.py", "tests/test_forced_stepper.py", "tests/test_validation.py"] \
            if tier == "quick" else []
        env = dict(os.environ, EXPONAX_VERIF="1", EXPONAX_VERIF_TRACE=suite_trace, JAX_PLATFORMS="cpu")
        env.pop("JAX_ENABLE_X64", None)
        pr = subprocess.run([sys.executable, "-m", "pytest", "-q", "-x", "-p", "no:cacheprovider",
                             "--deselect", "tests/test_nonlinear_funs.py::TestGradientNormAdditional::test_2d"] + tests,
                            cwd=os.environ.get("VERIF_REPO") or "/repo", env=env, capture_output=True, text=True, timeout=3000)
        run_.extra["repo_tests_with_hooks"] = pr.stdout.strip().splitlines()[-1] if pr.stdout.strip() else "no output"
        if os.path.exists(suite_trace):
            ok, n, bad = validate_hook_trace(run_, suite_trace, "suite")
            run_.traces += 1
            run_.extra["repo_suite_validate_events"] = n
            if not ok:
                run_.violation({"kind": "hook-trace", "source": "repository tests"}, {"rejected_event": bad})
        # binding self-test: a wrongly accepted malformed state must be rejected by the trace specification
        bad_path = os.path.join(work, "bad.ndjson")
        with open(bad_path, "w") as f:
            f.write(json.dumps({"ev": "Validate", "kind": "stepper", "D": 2, "N": 8, "C": 2, "shape": [1, 8, 8], "outcome": "returned",
                                "out_shape": [2, 8, 8]}) + "\n")
        okb, _, _ = validate_hook_trace(run_, bad_path, "selftest")
        if okb:
            raise RuntimeError("binding self-test failed: a broadcast acceptance was validated")
        run_.extra["selftest_corrupted_traces_rejected"] = 1
    else:
        run_.extra["hooks"] = "EXPONAX_VERIF hooks not active: trace validation skipped"
    run_.rule = ("shape cases: (target kind, class, D, N, mutation) for every TLC state and every public class with matching (D, C); restriction "
                 "rows: every row of the TLC-evaluated decision table executed against the API; traces: hook events of this run and of the repository tests")
    run_.exhaustive = True
    run_.assumptions = ["public classes enumerated from the package exports; classes that cannot be constructed are listed under 'uncovered'",
                        "the restriction table transcribes the documented constructor restrictions"]
    shutil.rmtree(work, ignore_errors=True)
    # the composed machine (spec/Session.tla): malformed calls inside multi-step API sessions, eagerly and through jit / vmap / rollout / repeat / wrappers
    from .. import session
    import jax.numpy as _jnp
    import exponax as _ex
    session.run_for(run_, tier, seed, _ex, _jnp, ['reject'], PID)
    return run_.finish()


def replay(path):
    return run("quick", 0)
