"""Child of the C19 check: ONE process in which the precision mode is switched between two constructions on the same grids.
Everything a stepper carries must follow the mode that is active when it is built (no state shared across constructions)."""
from __future__ import annotations

import json
import os
import sys

import numpy as np


def main():
    first_x64 = os.environ.get("VERIF_C19_FIRST") == "1"
    os.environ["JAX_PLATFORMS"] = "cpu"
    import jax
    jax.config.update("jax_enable_x64", first_x64)
    import jax.numpy as jnp
    import exponax as ex
    from harness import registry
    cases = [("Diffusion", 1, 64, None), ("Burgers", 1, 32, 2), ("KuramotoSivashinsky", 2, 12, 4), ("HyperDiffusion", 2, 10, None),
             ("KortewegDeVries", 1, 32, 3), ("NavierStokesVorticity", 2, 12, 2), ("Wave", 1, 32, None), ("FisherKPP", 3, 6, 1)]
    out = {"first_x64": first_x64, "phases": []}
    for phase, x64 in enumerate((first_x64, not first_x64)):
        jax.config.update("jax_enable_x64", x64)
        recs = []
        for name, D, N, order in cases:
            rec = {"name": name, "D": D, "N": N, "order": order}
            try:
                st = registry.make(name, D, N, L=3.0, dt=0.02, order=order)
                half = registry.make(name, D, N, L=3.0, dt=0.01, order=order)
                C = st.num_channels
                rng = np.random.default_rng(7)
                u_np = rng.standard_normal((C,) + (N,) * D) * 0.3
                u = jnp.asarray(u_np.astype(np.float64 if x64 else np.float32))
                u = ex.ifft(ex.fft(u) * ex.spectral.oddball_filter_mask(D, N), num_spatial_dims=D, num_points=N)
                res = st(u)
                rec["result_dtype"] = str(res.dtype)
                rec["finite"] = bool(np.isfinite(np.asarray(res)).all())
                rec["leaf_dtypes"] = sorted({str(x.dtype) for x in jax.tree_util.tree_leaves(st) if hasattr(x, "dtype")})
                if order is None:
                    a = np.asarray(res, dtype=np.float64)
                    b = np.asarray(half(half(u)), dtype=np.float64)
                    rec["semigroup_rel"] = float(np.max(np.abs(a - b)) / (1.0 + np.max(np.abs(a))))
            except Exception as e:  # noqa: BLE001
                rec["error"] = f"{type(e).__name__}: {str(e)[:300]}"
            recs.append(rec)
        out["phases"].append({"x64": x64, "cases": recs})
    json.dump(out, open(os.environ["VERIF_C19_OUT"], "w"))


if __name__ == "__main__":
    sys.exit(main())
