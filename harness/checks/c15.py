"""C15 Fourier interpolation and resolution changes are exact for band-limited states."""
from __future__ import annotations

import os
import shutil

import numpy as np

from .. import tlc, zoo
from ..evidence import Run
from ..num import as_map, cq, dense_half, maxabs, setup_jax
from ..tlaval import iter_dump_states

PID = "C15"
INVS = ["KeepsWavenumber", "MeanPreserved", "ExactOrRemoved", "InterpExact", "InterpAtGrid"]


def pairset(tier):
    out = []
    r1 = range(3, 13) if tier == "quick" else range(3, 17)
    for N in r1:
        for M in r1:
            if N != M and (tier != "quick" or abs(N - M) <= 3 or (N % M == 0) or (M % N == 0)):
                out.append(1000000 + 1000 * N + M)
    r2 = range(3, 9) if tier == "quick" else range(3, 13)
    for N in r2:
        for M in r2:
            if N != M and (tier != "quick" or abs(N - M) <= 2 or N % M == 0 or M % N == 0):
                out.append(2000000 + 1000 * N + M)
    r3 = range(3, 7) if tier == "quick" else range(3, 9)
    for N in r3:
        for M in r3:
            if N != M and (tier != "quick" or abs(N - M) == 1 or N == 2 * M or M == 2 * N):
                out.append(3000000 + 1000 * N + M)
    return out


def interp_ts(D, N, half):
    """python mirror used only to DECODE nothing: the interpolant spectrum comes from TLC (states with pc = input) - not used"""
    raise NotImplementedError


def run(tier: str, seed: int) -> int:
    run_ = Run(PID, tier, seed)
    setup_jax(True)
    import jax.numpy as jnp
    import exponax as ex
    rng = np.random.default_rng(seed)
    work = os.path.join(tlc.SCRATCH, f"c15.{os.getpid()}")
    os.makedirs(work, exist_ok=True)
    cfg = os.path.join(work, "MC_Resample.cfg")
    tlc.write_cfg(cfg, constants={"PairSet": "{" + ",".join(map(str, pairset(tier))) + "}"}, invariants=INVS)
    res = tlc.run_tlc("MC_Resample", cfg, workers=16, dump=True, timeout=3000)
    run_.add_tlc(res, "MC_Resample")
    if not res.ok:
        run_.violation({"kind": "spec", "invariant": res.violated}, {"trace": res.trace_text})
    done, inputs = {}, {}
    for st in iter_dump_states(res.dump):
        if st["pc"] == "done":
            done.setdefault((st["D"], st["N"], st["M"], tuple(st["kappa"])), {})[st["trig"]] = st["hnew"]
        elif st["pc"] == "input":
            inputs.setdefault((st["D"], st["N"], tuple(st["kappa"])), {})[st["trig"]] = st["h"]
    tlc.cleanup(res)
    nsamp = 0
    # ---- resampling: every basis function of the old grid (incl. its Nyquist modes), random amplitude and phase
    for (D, N, M, kappa), st in sorted(done.items()):
        if "cos" not in st or "sin" not in st:
            continue
        run_.case(("resample", D, N, M, kappa))
        a, phi = float(rng.uniform(0.5, 2)), float(rng.uniform(-3, 3))
        L = float(rng.choice([1.0, 2 * np.pi, 4.4]))
        grid = np.asarray(ex.make_grid(D, L, N))
        theta = sum(kappa[d] * grid[d] for d in range(D)) * (2 * np.pi / L)
        u = a * np.cos(theta + phi)
        ca, sa = a * np.cos(phi), -a * np.sin(phi)
        pred = ca * dense_half(D, M, {s: cq(c) for s, c in as_map(st["cos"]).items()}) + sa * dense_half(D, M, {s: cq(c) for s, c in as_map(st["sin"]).items()})
        C = int(rng.integers(1, 3))
        uu = np.stack([u] * C)
        v = np.asarray(ex.map_between_resolutions(jnp.asarray(uu), M))
        key = {"kind": "resample", "D": D, "N": N, "M": M, "parity": f"{'even' if N % 2 == 0 else 'odd'}->{'even' if M % 2 == 0 else 'odd'}"}
        if v.shape != (C,) + (M,) * D:
            run_.violation(dict(key, what="shape"), {"shape": list(v.shape)})
            continue
        vh = np.asarray(ex.fft(jnp.asarray(v)))
        err = max(maxabs(vh[c] - pred) for c in range(C)) / float(M) ** D
        if err > 1e-10 * a:
            run_.violation(dict(key, what="spectrum of the resampled field"), {"kappa": list(kappa), "err": err, "a": a, "phi": phi})
        # when the new grid resolves the mode: the same analytic function sampled there
        if all(2 * abs(k) < min(N, M) for k in kappa):
            g2 = np.asarray(ex.make_grid(D, L, M))
            want = a * np.cos(sum(kappa[d] * g2[d] for d in range(D)) * (2 * np.pi / L) + phi)
            if maxabs(v[0] - want) > 1e-10 * a * (1 + max(map(abs, kappa))):
                run_.violation(dict(key, what="not the same function on the new grid"), {"kappa": list(kappa), "err": maxabs(v[0] - want)})
        if nsamp < 3 and D > 1:
            run_.sample({"D": D, "N": N, "M": M, "kappa": list(kappa), "a": a, "phi": phi, "err": err})
            nsamp += 1
    run_.traces += len(done)
    # ---- arbitrary states: mean preserved; up then down is the identity on Nyquist-free states; same resolution is the identity
    seen = sorted({(k[0], k[1], k[2]) for k in done})
    for (D, N, M) in seen:
        run_.case(("mean", D, N, M))
        u = rng.standard_normal((2,) + (N,) * D) + rng.uniform(-1, 1, (2,) + (1,) * D)
        v = np.asarray(ex.map_between_resolutions(jnp.asarray(u), M))
        key = {"kind": "resample-mean", "D": D, "N": N, "M": M}
        if maxabs(v.reshape(2, -1).mean(axis=1) - u.reshape(2, -1).mean(axis=1)) > 1e-12 * (1 + maxabs(u)):
            run_.violation(key, {"drift": maxabs(v.reshape(2, -1).mean(axis=1) - u.reshape(2, -1).mean(axis=1))})
        if M > N:
            un = zoo.nyquist_free(ex, jnp, u)
            back = np.asarray(ex.map_between_resolutions(ex.map_between_resolutions(jnp.asarray(un), M), N))
            if maxabs(back - un) > 1e-11 * (1 + maxabs(un)):
                run_.violation({"kind": "resample-roundtrip", "D": D, "N": N, "M": M}, {"err": maxabs(back - un)})
        same = np.asarray(ex.map_between_resolutions(jnp.asarray(u), N))
        if maxabs(same - u) > 0:
            run_.violation({"kind": "resample-same-resolution", "D": D, "N": N}, {})
    # ---- interpolation
    by_grid = {}
    for (D, N, kappa), st in inputs.items():
        by_grid.setdefault((D, N), []).append((kappa, st))
    for (D, N), lst in sorted(by_grid.items()):
        L = float(rng.choice([1.0, 2 * np.pi, 3.3]))
        omega = 2 * np.pi / L
        grid = np.asarray(ex.make_grid(D, L, N))
        for kappa, st in lst:
            if "cos" not in st or "sin" not in st:
                continue
            run_.case(("interp", D, N, kappa))
            a, phi = float(rng.uniform(0.5, 2)), float(rng.uniform(-3, 3))
            u = a * np.cos(sum(kappa[d] * grid[d] for d in range(D)) * omega + phi)
            C = int(rng.integers(1, 3))
            itp = ex.FourierInterpolator(jnp.asarray(np.stack([u * (c + 1) for c in range(C)])), domain_extent=L)
            nyqfree = all(2 * abs(k) < N for k in kappa)
            pts = [rng.uniform(0, L, D), rng.uniform(-2 * L, 3 * L, D), np.array([L * 7 / 3] * D), np.zeros(D)]
            for x in pts:
                got = np.asarray(itp(jnp.asarray(x)))
                if got.shape != (C,):
                    run_.violation({"kind": "interp", "D": D, "N": N, "what": "shape"}, {"shape": list(got.shape)})
                    break
                if nyqfree:
                    want = a * np.cos(omega * float(np.dot(kappa, x)) + phi)
                    if maxabs(got - want * np.arange(1, C + 1)) > 1e-9 * a * (1 + abs(omega * max(map(abs, kappa)) * maxabs(x))):
                        run_.violation({"kind": "interp", "D": D, "N": N, "what": "analytic value of a Nyquist-free mode", "inside": bool(np.all((x >= 0) & (x < L)))},
                                       {"kappa": list(kappa), "x": x.tolist(), "got": got.tolist(), "want": want})
            # at its own grid points: any state (Nyquist modes included)
            idx = tuple(int(rng.integers(0, N)) for _ in range(D))
            xg = np.array([grid[d][idx] for d in range(D)])
            got = np.asarray(itp(jnp.asarray(xg)))
            if maxabs(got - u[idx] * np.arange(1, C + 1)) > 1e-10 * a * N:
                run_.violation({"kind": "interp", "D": D, "N": N, "what": "state not reproduced at its own grid point"}, {"kappa": list(kappa), "idx": list(idx)})
        # random dense states at grid points, both indexings
        for indexing in ("ij", "xy"):
            run_.case(("interp-grid", D, N, indexing))
            u = rng.standard_normal((2,) + (N,) * D)
            g = np.asarray(ex.make_grid(D, L, N, indexing=indexing))
            itp = ex.FourierInterpolator(jnp.asarray(u), domain_extent=L, indexing=indexing)
            for _ in range(3):
                idx = tuple(int(rng.integers(0, N)) for _ in range(D))
                xg = np.array([g[d][idx] for d in range(D)])
                got = np.asarray(itp(jnp.asarray(xg)))
                if maxabs(got - u[(slice(None),) + idx]) > 1e-9 * N ** D:
                    run_.violation({"kind": "interp", "D": D, "N": N, "what": "random state not reproduced at grid point", "indexing": indexing},
                                   {"idx": list(idx), "err": maxabs(got - u[(slice(None),) + idx])})
    # fine and float-hazard grid sizes (1/N not representable): the interpolant still reproduces any state at its own grid points
    for D, N in ((1, 49), (1, 98), (1, 103), (1, 196), (1, 206), (2, 49), (2, 98)):
        run_.case(("interp-grid-large", D, N))
        L = 1.0
        u = rng.standard_normal((1,) + (N,) * D)
        g = np.asarray(ex.make_grid(D, L, N))
        itp = ex.FourierInterpolator(jnp.asarray(u), domain_extent=L)
        for _ in range(3):
            idx = tuple(int(rng.integers(0, N)) for _ in range(D))
            got = np.asarray(itp(jnp.asarray(np.array([g[d][idx] for d in range(D)]))))
            if maxabs(got - u[(slice(None),) + idx]) > 1e-9 * N ** D:
                run_.violation({"kind": "interp", "D": D, "N": N, "what": "random state not reproduced at grid point (large N)"},
                               {"idx": list(idx), "err": maxabs(got - u[(slice(None),) + idx])})
        M = N + 1
        v = np.asarray(ex.map_between_resolutions(jnp.asarray(u), M))
        if abs(v.mean() - u.mean()) > 1e-12 * (1 + maxabs(u)):
            run_.violation({"kind": "resample-mean", "D": D, "N": N, "M": M}, {})
    # ---- dense band-limited states (every mode of the box |k_i| < min(N, M)/2, corners included) evaluated analytically on both grids:
    # the resampled field is the same function; pairs beyond the TLC table (larger even coarse grids, both directions)
    def dense(D, n, Ns, L):
        km = (n - 1) // 2
        ks = np.arange(-km, km + 1)
        c = rng.standard_normal((len(ks),) * D) + 1j * rng.standard_normal((len(ks),) * D)
        outs = []
        for Ng in Ns:
            E = np.exp(2j * np.pi * np.outer(np.arange(Ng), ks) / Ng)       # [j, k]
            v = c
            for d in range(D):
                v = np.moveaxis(np.tensordot(E, v, axes=([1], [d])), 0, d)
            outs.append(v.real)
        return outs
    dense_pairs = [(1, 16, 24), (1, 24, 16), (1, 15, 10), (2, 8, 11), (2, 8, 12), (2, 12, 8), (2, 11, 8), (2, 10, 16), (2, 9, 14), (2, 14, 9),
                   (3, 6, 8), (3, 8, 6), (3, 6, 9), (3, 9, 6), (3, 8, 10)]
    if tier != "quick":
        dense_pairs += [(2, a, b) for a in range(13, 21) for b in (a + 1, a + 3, 2 * a)] + [(2, b, a) for a in range(13, 21) for b in (a + 1, a + 3, 2 * a)] \
            + [(3, a, b) for a in range(9, 13) for b in (a + 1, a + 2)] + [(3, b, a) for a in range(9, 13) for b in (a + 1, a + 2)]
    for D, N, M in dense_pairs:
        run_.case(("dense", D, N, M))
        uN, uM = dense(D, min(N, M), (N, M), 1.0)
        v = np.asarray(ex.map_between_resolutions(jnp.asarray(uN[None]), M))[0]
        if maxabs(v - uM) > 1e-10 * (1 + maxabs(uM)):
            run_.violation({"kind": "resample-dense", "D": D, "N": N, "M": M, "what": "band-limited state is not the same function on the new grid"},
                           {"err": maxabs(v - uM), "scale": maxabs(uM)})
    run_.traces += len(inputs)
    run_.rule = ("resample cases: every TLC terminal state (D, N, M, wavenumber of the old grid incl. Nyquist) with random amplitude/phase/L/channel "
                 "count; mean / round-trip / identity cases per (D, N, M); interpolation cases per basis function at random points inside and outside "
                 "the domain and at grid points, plus random dense states in both indexings")
    run_.exhaustive = True
    run_.assumptions = ["numpy cos for analytic values", "tolerance 1e-10 relative"]
    shutil.rmtree(work, ignore_errors=True)
    # hook events recorded by the library itself (this process and the repository's own tests run with EXPONAX_VERIF=1), validated by
    # TLC against spec/Trace_Hooks.tla: Resample
    from .. import hooktrace as _ht
    _ht.check(run_, PID, ['Resample'], ['tests/test_interpolation.py'], {'ev': 'Resample', 'shape': [2, 8, 8], 'new_num_points': 12, 'out_shape': [2, 12, 8], 'outcome': 'returned'})
    # layout arithmetic for EVERY N (Apalache, unbounded integers): BlocksAllN, RightKeepsAllN
    from .. import tlc as _tlc
    for _inv in ['BlocksAllN', 'RightKeepsAllN']:
        _ok, _wall, _tail = _tlc.run_apalache("Lemmas_apa", _inv)
        run_.extra.setdefault("all_N_lemmas_apalache", {})[_inv] = _ok
        if not _ok:
            run_.violation({"kind": "spec", "invariant": _inv, "what": "all-N lemma refuted"}, {"apalache": _tail})
    # ---- default (float32) session: the same public calls on the same inputs in a float32 child process
    from .. import xsession as _xs
    import numpy as _np
    _rng = _np.random.default_rng(seed + 77)
    _cases = []
    for _D, _N, _M in ((1, 16, 24), (1, 15, 8), (2, 8, 11), (2, 9, 6), (3, 6, 8), (3, 5, 4)):
        _u = _rng.standard_normal((2,) + (_N,) * _D)
        _cases.append(dict(id=f"resample/{_D}/{_N}/{_M}", name="map_between_resolutions", args=[_u], kw=dict(new_num_points=_M)))
        for _j in range(3):
            _cases.append(dict(id=f"interp/{_D}/{_N}/{_j}", name="interpolate", args=[_u, _rng.uniform(0, 2.0, _D)], kw=dict(L=2.0), cond=float(_N)))
    _xs.compare(run_, PID, _cases, os.path.join(tlc.SCRATCH, f"c15xs.{os.getpid()}"))
    # the composed machine (spec/Session.tla): multi-step API sessions generated by TLC -simulate, replayed call by call; this check
    # reports the mismatches of the operations it owns (resample)
    if True:
        from .. import session
        import jax.numpy as _jnp
        import exponax as _ex
        session.run_for(run_, tier, seed, _ex, _jnp, ['resample', 'interp'], PID)
        from .. import sessiontrace   # the other direction: driver-chosen sessions executed by the library, every returned state validated by TLC (Trace_Session.tla)
        sessiontrace.run_for(run_, tier, seed, _ex, _jnp, ['resample', 'interp'], PID)
    return run_.finish()


def replay(path):
    return run("quick", 0)
