"""C16 Error metrics are consistent quadratures of the documented norms.

MC_Metrics (TLC) evaluates every metric exactly on pairs of sparse two-sided spectra and checks Parseval through the rfft layout,
resolution independence, band additivity, the metric axioms, Cauchy-Schwarz and the H1 decomposition.  Every terminal state is
replayed: the pair is synthesised on the grid N of the state and on a second grid, every function of exponax.metrics is called and
compared with the value assembled from the specification's exact atoms.  Random dense states (with Nyquist content) are run through
the relations TLC proved for the model (code-vs-code: Parseval, band partition, channel additivity, homogeneity, L^D scaling,
H1 = plain + gradient)."""
from __future__ import annotations

import functools
import inspect
import math
import os
import shutil

import numpy as np

from .. import tlc
from ..evidence import Run
from ..num import as_map, cq, fq, setup_jax, synth
from ..tlaval import iter_dump_states

PID = "C16"
INVS = ["ParsevalOK", "SpatialOK", "BandAddOK", "ZeroIffOK", "HomogOK", "SymBoundOK", "CorrOK", "GradOK", "L1OK"]
NOB = 900
TOL = 2e-10


def _atoms(rec, C, D):
    """res.diff / res.ref / res.pred  ->  list over channels of dict(e2=[..0..D], s1=[..0..D] of list of (q, weight))"""
    out = []
    rec = as_map(rec)
    for ch in range(1, C + 1):
        r = rec[ch]
        e2m, s1m = as_map(r["e2"]), as_map(r["s1"])
        e2 = [float(fq(e2m[j])) for j in range(0, D + 1)]
        s1 = []
        for j in range(0, D + 1):
            m = as_map(s1m[j])
            s1.append([(float(fq(q)), int(w)) for q, w in m.items()])
        out.append(dict(e2=e2, s1=s1))
    return out


def part(meta, atoms_c, J, D, N, L):
    """one channel: Sum_{j in J} outer( Lfac_j * atom_j )   (documented aggregation; the atoms are exact, from TLC)"""
    w = 2 * math.pi / L
    tot = 0.0
    for j in J:
        if meta["inner"] == 2:
            a = atoms_c["e2"][j] * L ** D * (w * w if j > 0 else 1.0)
        else:
            a = sum(wt * math.sqrt(q) for q, wt in atoms_c["s1"][j]) * (L / N) ** D * (w if j > 0 else 1.0)
        tot += math.sqrt(a) if meta["outer"] == "sqrt" else a
    return tot


def expected(meta, st, J, N, L):
    """value of one metric on one decoded state for the term set J; None if undefined (zero denominator)."""
    D, C = st["D"], st["C"]
    tot = 0.0
    for ch in range(C):
        d = part(meta, st["diff"][ch], J, D, N, L)
        if meta["form"] == "abs":
            tot += d
        elif meta["form"] == "norm":
            r = part(meta, st["ref"][ch], J, D, N, L)
            if r == 0.0:
                return None
            tot += d / r
        else:
            r = part(meta, st["ref"][ch], J, D, N, L) + part(meta, st["pred"][ch], J, D, N, L)
            if r == 0.0:
                return None
            tot += 2 * d / r
    return tot


def expected_l1(meta, st, L):
    """spatial MAE family on sign-definite fields: Int |u| = L^D |mean u|"""
    tot = 0.0
    for ch in range(st["C"]):
        l1 = st["l1"][ch]
        if not l1["ok"]:
            return None
        d, r, p = (float(fq(l1[k])) * L ** st["D"] for k in ("diff", "ref", "pred"))
        tot += d if meta["form"] == "abs" else d / r if meta["form"] == "norm" else 2 * d / (r + p)
    return tot


def decode(stt):
    D, N, C = stt["D"], stt["N"], stt["C"]
    res = stt["res"]
    st = dict(D=D, N=N, C=C, band=tuple(stt["band"]), base=stt["base"])
    for k in ("diff", "ref", "pred"):
        st[k] = _atoms(res[k], C, D)
    l1 = as_map(res["l1"])
    st["l1"] = [l1[ch] for ch in range(1, C + 1)]
    cr = as_map(res["corr"])
    st["corr"] = [{k: float(fq(cr[ch][k])) for k in ("uv", "uu", "vv")} for ch in range(1, C + 1)]
    st["pred_ts"] = [{k: cq(c) for k, c in as_map(f).items()} for f in stt["pred"]]
    st["ref_ts"] = [{k: cq(c) for k, c in as_map(f).items()} for f in stt["ref"]]
    return st


def fields(st, N):
    D = st["D"]
    p = np.stack([synth(D, N, ts).real if ts else np.zeros((N,) * D) for ts in st["pred_ts"]])
    r = np.stack([synth(D, N, ts).real if ts else np.zeros((N,) * D) for ts in st["ref_ts"]])
    return p, r


def run(tier: str, seed: int) -> int:
    run_ = Run(PID, tier, seed)
    jax = setup_jax(True)
    import jax.numpy as jnp
    import exponax as ex
    rng = np.random.default_rng(seed)
    work = os.path.join(tlc.SCRATCH, f"c16.{os.getpid()}")
    os.makedirs(work, exist_ok=True)
    if tier == "quick":
        consts = {"DNSet": "{11008, 21009, 22005, 12006, 13004}", "Ext": 311, "Bands": "{900900, 1002, 0, 2900}", "Third": "FALSE"}
        consts2 = None
    else:
        consts = {"DNSet": "{11008, 21009, 31012, 22005, 12006, 22007, 13004, 23005}", "Ext": 421,
                  "Bands": "{900900, 1002, 0, 2900, 900001, 1001, 3004}", "Third": "FALSE"}
        consts2 = {"DNSet": "{21008, 11009, 12005, 13004}", "Ext": 311, "Bands": "{900900, 1900}", "Third": "TRUE"}
    table = None
    states = []
    for lab, cs in (("pairs", consts), ("triples", consts2)):
        if cs is None:
            continue
        cfg = os.path.join(work, f"MC_Metrics_{lab}.cfg")
        tlc.write_cfg(cfg, spec="Spec", constants=cs, invariants=INVS)
        res = tlc.run_tlc("MC_Metrics", cfg, workers=16, dump=True, timeout=6000, tag="MC_Metrics_" + lab)
        run_.add_tlc(res, "MC_Metrics/" + lab)
        if not res.ok:
            run_.violation({"kind": "spec", "invariant": res.violated}, {"trace": res.trace_text})
        if table is None:
            table = tlc.extract_printed(res.out, "metric_table")[0]
        for stt in iter_dump_states(res.dump, must_contain='pc = "done"'):
            states.append(decode(stt))
        tlc.cleanup(res)
    # ---- the public metric functions, enumerated from the package; anything the registry does not know is reported as uncovered
    public = {n: getattr(ex.metrics, n) for n in dir(ex.metrics) if not n.startswith("_") and callable(getattr(ex.metrics, n))}
    low_level = {"spatial_aggregator", "spatial_norm", "fourier_aggregator", "fourier_norm", "mean_metric", "correlation"}
    uncovered = sorted(set(public) - set(table) - low_level)
    missing = sorted(set(table) - set(public))
    run_.extra["uncovered_public_metrics"] = uncovered
    for m in missing:
        run_.violation({"kind": "missing-metric", "what": m}, {"note": "documented metric not exported by exponax.metrics"})
    table = {k: v for k, v in table.items() if k in public}

    # ---- replay of every terminal state
    groups = {}
    for st in states:
        groups.setdefault((st["D"], st["N"], st["C"], st["band"]), []).append(st)
    nsamp = 0
    for (D, N, C, band), sts in sorted(groups.items()):
        L = float(rng.choice([1.0, 2 * math.pi, 0.37, 5.0, 12.5, 0.02, 0.004, 150.0]))
        low = None if band[0] == NOB else band[0]
        high = None if band[1] == NOB else band[1]
        full = band == (NOB, NOB)
        for N2 in (N, N + 1 + 2 * int(rng.integers(0, 3))):
            P, R = zip(*(fields(st, N2) for st in sts))
            P, R = jnp.asarray(np.stack(P)), jnp.asarray(np.stack(R))
            for name, meta in sorted(table.items()):
                fn = public[name]
                variants = []
                if not meta["fourier"]:
                    if full:
                        variants.append(("plain", {}, None))
                elif meta["deriv"] == "h1":
                    variants.append(("h1", dict(low=low, high=high), None))
                else:
                    variants.append(("value", dict(low=low, high=high), [0]))
                    variants.append(("deriv", dict(low=low, high=high, derivative_order=1), list(range(1, D + 1))))
                for vname, kw, J in variants:
                    f = jax.vmap(functools.partial(fn, domain_extent=L, **kw))
                    got = np.asarray(f(P, R))
                    for i, st in enumerate(sts):
                        if meta["inner"] == 1 and not meta["fourier"]:
                            want = expected_l1(meta, st, L)
                        elif vname == "h1":
                            a = expected(meta, st, [0], N2, L)
                            b = expected(meta, st, list(range(1, D + 1)), N2, L)
                            want = None if a is None or b is None else a + b
                        elif vname == "plain":
                            want = expected(meta, st, [0], N2, L)
                        else:
                            want = expected(meta, st, J, N2, L)
                        if want is None:
                            continue
                        run_.evaluations += 1
                        if not (abs(got[i] - want) <= TOL * (1 + abs(want))):
                            run_.violation({"kind": "replay", "what": name, "D": D, "mode": vname, "region": "band" if not full else "full"},
                                           {"N_state": N, "N_sampled": N2, "C": C, "L": L, "band": [low, high], "got": float(got[i]), "want": want,
                                            "pred": {str(k): str(v) for ts in st["pred_ts"] for k, v in ts.items()},
                                            "ref": {str(k): str(v) for ts in st["ref_ts"] for k, v in ts.items()}})
            if full:
                got = np.asarray(jax.vmap(ex.metrics.correlation)(P, R))
                for i, st in enumerate(sts):
                    if any(c["uu"] == 0 or c["vv"] == 0 for c in st["corr"]):
                        continue
                    want = float(np.mean([c["uv"] / math.sqrt(c["uu"] * c["vv"]) for c in st["corr"]]))
                    run_.evaluations += 1
                    if not (abs(got[i] - want) <= TOL * 10):
                        run_.violation({"kind": "replay", "what": "correlation", "D": D}, {"N": N2, "got": float(got[i]), "want": want})
        for st in sts:
            run_.case((D, N, C, band, st["base"], repr(st["pred_ts"]), repr(st["ref_ts"])))
            if nsamp < 4 and D > 1 and not full:
                run_.sample({"D": D, "N": N, "C": C, "band": [low, high], "L": L,
                             "pred": [{str(k): [v.real, v.imag] for k, v in ts.items()} for ts in st["pred_ts"]],
                             "ref": [{str(k): [v.real, v.imag] for k, v in ts.items()} for ts in st["ref_ts"]],
                             "diff_e2": [c["e2"] for c in st["diff"]]})
                nsamp += 1
    run_.traces = len(states)

    # ---- random dense states (white noise: content on every mode, Nyquist included): the relations TLC proved for the model
    M = ex.metrics
    reps = 2 if tier == "quick" else 6
    for D, N in ((1, 16), (1, 15), (2, 8), (2, 9), (3, 6), (3, 5)):
        for rep in range(reps):
            C = int(rng.integers(1, 4))
            L = float(rng.choice([1.0, 2 * math.pi, 0.37, 7.0, 0.01, 0.003, 90.0]))
            u = rng.standard_normal((C,) + (N,) * D)
            v = rng.standard_normal((C,) + (N,) * D) * 0.7 + 0.2
            ju, jv = jnp.asarray(u), jnp.asarray(v)
            key = {"kind": "random", "D": D, "N": N}

            def chk(what, a, b, tol=1e-10):
                run_.evaluations += 1
                a, b = float(a), float(b)
                if not (abs(a - b) <= tol * (1 + abs(b))):
                    run_.violation(dict(key, what=what), {"C": C, "L": L, "lhs": a, "rhs": b, "rep": rep})
            # Parseval: spatial == Fourier for the L2 family
            for sp, fo in (("MSE", "fourier_MSE"), ("nMSE", "fourier_nMSE"), ("RMSE", "fourier_RMSE"), ("nRMSE", "fourier_nRMSE")):
                chk(f"parseval:{sp}", getattr(M, fo)(ju, jv, domain_extent=L), getattr(M, sp)(ju, jv, domain_extent=L))
            chk("parseval:MSE-noref", M.fourier_MSE(ju, domain_extent=L), M.MSE(ju, domain_extent=L))
            # explicit Riemann sums (documented formula, independent of the library's aggregator)
            cell = (L / N) ** D
            chk("riemann:MSE", M.MSE(ju, jv, domain_extent=L), cell * np.sum((u - v) ** 2))
            chk("riemann:MAE", M.MAE(ju, jv, domain_extent=L), cell * np.sum(np.abs(u - v)))
            chk("riemann:RMSE", M.RMSE(ju, jv, domain_extent=L), np.sum(np.sqrt(cell * np.sum((u - v) ** 2, axis=tuple(range(1, D + 1))))))
            chk("riemann:nMAE", M.nMAE(ju, jv, domain_extent=L), np.sum(np.sum(np.abs(u - v), axis=tuple(range(1, D + 1))) / np.sum(np.abs(v), axis=tuple(range(1, D + 1)))))
            chk("riemann:sMSE", M.sMSE(ju, jv, domain_extent=L),
                np.sum(2 * np.sum((u - v) ** 2, axis=tuple(range(1, D + 1))) / (np.sum(u ** 2, axis=tuple(range(1, D + 1))) + np.sum(v ** 2, axis=tuple(range(1, D + 1))))))
            # band partition: every mode in exactly one shell
            cuts = sorted(set(int(c) for c in rng.integers(0, N // 2 + 1, size=2)))
            edges = [0] + [c + 1 for c in cuts if c + 1 <= N // 2] + [N // 2 + 1]
            edges = sorted(set(edges))
            for nm in ("fourier_MSE", "fourier_MAE", "H1_MSE"):
                tot = sum(float(getattr(M, nm)(ju, jv, domain_extent=L, low=a, high=b - 1)) for a, b in zip(edges[:-1], edges[1:]))
                chk(f"band-partition:{nm}", tot, getattr(M, nm)(ju, jv, domain_extent=L))
            shells = sum(float(M.fourier_MSE(ju, jv, domain_extent=L, low=b, high=b)) for b in range(0, N // 2 + 1))
            chk("band-shells:fourier_MSE", shells, M.MSE(ju, jv, domain_extent=L))
            # channels: sum over single-channel evaluations
            for nm in sorted(table):
                f = getattr(M, nm)
                chk(f"channels:{nm}", f(ju, jv, domain_extent=L), sum(float(f(ju[c:c + 1], jv[c:c + 1], domain_extent=L)) for c in range(C)))
            # homogeneity / scale invariance, symmetry, identity, L^D scaling
            s = float(rng.choice([-2.5, 0.3, 4.0]))
            for nm, meta in sorted(table.items()):
                f = getattr(M, nm)
                base = float(f(ju, jv, domain_extent=L))
                deg = 0 if meta["form"] != "abs" else (meta["inner"] if meta["outer"] == "id" else 1)
                chk(f"homogeneity:{nm}", f(s * ju, s * jv, domain_extent=L), abs(s) ** deg * base)
                run_.evaluations += 1
                if not float(f(ju, ju, domain_extent=L)) == 0.0:
                    run_.violation(dict(key, what=f"identity:{nm}"), {"value": float(f(ju, ju, domain_extent=L))})
                if not base > 0.0:
                    run_.violation(dict(key, what=f"positivity:{nm}"), {"value": base})
                if meta["form"] in ("abs", "sym"):
                    chk(f"symmetry:{nm}", f(jv, ju, domain_extent=L), base)
                if meta["deriv"] == "no":
                    if meta["form"] != "abs":
                        p = 0.0
                    elif meta["inner"] == 1 and meta["fourier"]:
                        p = D
                    else:
                        p = D * (1.0 if meta["outer"] == "id" else 0.5)
                    # the documented L^p law over many decades of the domain extent (tiny and huge boxes included), every time
                    for Lx in (3.0 * L, 2e-3, 0.05, 40.0, 3e3):
                        chk(f"L-scaling:{nm}", f(ju, jv, domain_extent=Lx), (Lx / L) ** p * base, tol=1e-9)
            # derivative variants scale like L^(D-2) (inner 2, outer id)
            chk("L-scaling:fourier_MSE-deriv", M.fourier_MSE(ju, jv, domain_extent=3.0 * L, derivative_order=1),
                3.0 ** (D - 2) * float(M.fourier_MSE(ju, jv, domain_extent=L, derivative_order=1)))
            # Sobolev: H1 = plain + metric of the spectral gradient (absolute variants; Nyquist-free states so that the gradient is a real field)
            mask = np.asarray(ex.spectral.oddball_filter_mask(D, N))
            un = np.asarray(ex.ifft(ex.fft(ju) * mask, num_spatial_dims=D, num_points=N))
            vn = np.asarray(ex.ifft(ex.fft(jv) * mask, num_spatial_dims=D, num_points=N))
            gu = np.asarray(ex.derivative(jnp.asarray(un), L)).reshape((C * D,) + (N,) * D)
            gv = np.asarray(ex.derivative(jnp.asarray(vn), L)).reshape((C * D,) + (N,) * D)
            for h1, pl in (("H1_MSE", "fourier_MSE"), ("H1_RMSE", "fourier_RMSE"), ("H1_MAE", "fourier_MAE")):
                lhs = getattr(M, h1)(jnp.asarray(un), jnp.asarray(vn), domain_extent=L)
                rhs = float(getattr(M, pl)(jnp.asarray(un), jnp.asarray(vn), domain_extent=L)) + float(getattr(M, pl)(jnp.asarray(gu), jnp.asarray(gv), domain_extent=L))
                chk(f"sobolev:{h1}", lhs, rhs)
            chk("sobolev:H1_MSE-spatial-gradient", M.H1_MSE(jnp.asarray(un), jnp.asarray(vn), domain_extent=L),
                float(M.MSE(jnp.asarray(un), jnp.asarray(vn), domain_extent=L)) + float(M.MSE(jnp.asarray(gu), jnp.asarray(gv), domain_extent=L)))
            # correlation
            cval = float(M.correlation(ju, jv))
            run_.evaluations += 1
            if not (-1.0 - 1e-12 <= cval <= 1.0 + 1e-12):
                run_.violation(dict(key, what="correlation-range"), {"value": cval})
            chk("correlation:+proportional", M.correlation(ju, 2.5 * ju), 1.0)
            chk("correlation:-proportional", M.correlation(ju, -0.4 * ju), -1.0)
            chk("correlation:symmetric", M.correlation(jv, ju), cval)
            chk("correlation:explicit", cval, np.mean([np.sum(u[c] * v[c]) / math.sqrt(np.sum(u[c] ** 2) * np.sum(v[c] ** 2)) for c in range(C)]))
            # mean_metric = mean over the batch axis
            B = 3
            ub = jnp.asarray(rng.standard_normal((B, C) + (N,) * D))
            vb = jnp.asarray(rng.standard_normal((B, C) + (N,) * D))
            chk("mean_metric", M.mean_metric(M.nRMSE, ub, vb, domain_extent=L), np.mean([float(M.nRMSE(ub[b], vb[b], domain_extent=L)) for b in range(B)]))
            # ... call after call with the same keyword NAMES and other VALUES (nothing may be remembered between calls)
            for L2 in (L, 2.5 * L, 0.3 * L):
                chk("mean_metric:sequence:domain_extent", M.mean_metric(M.MSE, ub, vb, domain_extent=L2),
                    np.mean([float(M.MSE(ub[b], vb[b], domain_extent=L2)) for b in range(B)]))
            for lo, hi in ((0, 1), (2, 3), (1, N // 2)):
                chk("mean_metric:sequence:band", M.mean_metric(M.fourier_MSE, ub, vb, domain_extent=L, low=lo, high=hi),
                    np.mean([float(M.fourier_MSE(ub[b], vb[b], domain_extent=L, low=lo, high=hi)) for b in range(B)]))
            for do in (1, 2):
                chk("mean_metric:sequence:derivative_order", M.mean_metric(M.fourier_MSE, ub, vb, domain_extent=L, derivative_order=do),
                    np.mean([float(M.fourier_MSE(ub[b], vb[b], domain_extent=L, derivative_order=do)) for b in range(B)]))
            run_.case(("random", D, N, rep))
    run_.rule = ("one case per terminal TLC state = (D, N, C, band, offset flag, pair of sparse spectra built from 2-3 real basis functions with rational "
                 "amplitudes); each is synthesised on grid N and on a second finer grid and every public metric (all variants: plain, band, derivative, H1) "
                 "is compared with the value assembled from the exact atoms; plus random dense multi-channel states for the code-vs-code relations")
    run_.exhaustive = True
    run_.assumptions = ["numpy synthesis of the fields", "sqrt / powers of L evaluated in float64 by the harness from exact rational atoms",
                        "spatial L1 metrics have closed forms only on sign-definite fields; otherwise only axioms/scaling are checked",
                        "tolerance 2e-10 relative"]
    shutil.rmtree(work, ignore_errors=True)
    # ---- default (float32) session: the same public calls on the same inputs in a float32 child process
    from .. import xsession as _xs
    import numpy as _np
    _rng = _np.random.default_rng(seed + 77)
    _cases = []
    for _D, _N in ((1, 16), (2, 8), (3, 6), (1, 15), (2, 9)):
        _u = _rng.standard_normal((2,) + (_N,) * _D)
        _v = _rng.standard_normal((2,) + (_N,) * _D) * 0.7 + 0.2
        for _nm, _meta in sorted(table.items()):
            _kws = [dict(domain_extent=5.0)]
            if _meta["fourier"]:
                _kws.append(dict(domain_extent=5.0, low=1, high=3))
                if _meta["deriv"] == "no":
                    _kws.append(dict(domain_extent=0.7, derivative_order=1))
            for _i, _kw in enumerate(_kws):
                _cases.append(dict(id=f"{_nm}/{_D}/{_N}/{_i}", name="metrics." + _nm, args=[_u, _v], kw=_kw))
        _cases.append(dict(id=f"correlation/{_D}/{_N}", name="metrics.correlation", args=[_u, _v], kw={}))
    _xs.compare(run_, PID, _cases, work + "_xs")
    # the composed machine (spec/Session.tla): multi-step API sessions generated by TLC -simulate, replayed call by call; this check
    # reports the mismatches of the operations it owns (metric)
    from .. import session
    import jax.numpy as _jnp
    import exponax as _ex
    session.run_for(run_, tier, seed, _ex, _jnp, ['metric'], PID)
    from .. import sessiontrace   # the other direction: driver-chosen sessions executed by the library, every returned state validated by TLC (Trace_Session.tla)
    sessiontrace.run_for(run_, tier, seed, _ex, _jnp, ['metric'], PID)
    return run_.finish()


def replay(path):
    return run("quick", 0)
