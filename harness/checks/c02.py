"""C02 ETDRK steppers realise the order-p exponential Runge-Kutta scheme exactly.

TLC: MC_ETDRK (stage machine in Q[E,z,1/z]): wiring == canonical Cox-Matthews weights, row sums c_i phi1(c_i z), removable
singularity, classical limit + Butcher conditions to order p, stability function == exp(z+w) to total degree p.
(A) coefficient cover: public exponax.etdrk.ETDRKp(dt, L, N) with diagonal L over a dense cover of z and a nonlinear function
    returning fresh fixed vectors per call, so every stage input exposes the tableau row; prediction = TLC's ring elements
    evaluated by mpmath.
(B) stage traces of real steppers recorded at the BaseNonlinearFun boundary, validated by TLC against Trace_ETDRK."""
from __future__ import annotations

import os
import shutil

import numpy as np

from .. import etdrk, linear, registry, tlc
from ..evidence import Run
from ..num import maxabs, setup_jax, wshape

PID = "C02"


def z_cover(tier, rng):
    zs = [0.0]
    for e in range(-8, 2):
        zs += [-(10.0 ** e), 10.0 ** e * (1 if e <= 0 else 0.1)]
    zs += [-(10.0 ** e) for e in range(2, 16)]
    zs += [1.0, 5.0, 20.0, -0.5, -3.0, -30.0]
    for e in range(-3, 7):
        zs += [1j * 10.0 ** e, -1j * 10.0 ** e]
    zs += [2.5j, -0.7j, 31.4j]
    zs += [s * m * 10.0 ** e for e in range(-4, 1) for m in (2.0, 5.0, 9.0) for s in (-1, 1) if s * m * 10.0 ** e < 25] + \
          [1j * m * 10.0 ** e for e in range(-4, 0) for m in (-3.0, 7.0)]
    nfan = 60 if tier == "quick" else 400
    r = 10 ** rng.uniform(-4, 6, nfan)
    th = rng.uniform(np.pi / 2, 3 * np.pi / 2, nfan)
    zs += list(r * np.exp(1j * th))
    return np.array(zs, dtype=complex)


class FixedOutputs:
    """A 'user-defined nonlinear function': returns a fresh fixed vector on every call and records its inputs."""

    def __init__(self, outs):
        self.outs = outs
        self.inputs = []

    def __call__(self, u_hat):
        self.inputs.append(np.asarray(u_hat))
        return self.outs[len(self.inputs) - 1]


def check_cover(run, tab, ex, jnp, rng, tier):
    zs = z_cover(tier, rng)
    M = len(zs)
    classes = {1: ex.etdrk.ETDRK1, 2: ex.etdrk.ETDRK2, 3: ex.etdrk.ETDRK3, 4: ex.etdrk.ETDRK4}
    for p, cls in classes.items():
        # (dt, number of contour nodes): the coefficient functions do not depend on how many nodes the contour mean uses (even or odd)
        # the contour radius and the dtype in which a real symbol is handed over do not enter either
        # dt = 1, 2, 1/4 with L = z / dt: bit-identical products L dt for different dt in one process (the coefficients are dt times a function
        # of L dt: an integrator that remembers anything per L dt must not remember the factor dt)
        for dt, ncp in ((1.0, None), (2.0, None), (0.25, None), (0.01, None), (37.0, None), (1.0, 17), (0.3, 32), (1.0, 33), (1.0, "radius2"), (0.5, "realdtype")):
            for zero_u in (True, False):
                L = zs / dt
                if ncp == "realdtype":
                    L = np.where(np.abs(zs.imag) > 0, -np.abs(zs), zs.real) / dt          # real symbols only, passed as a float64 array
                outs = [jnp.asarray((rng.standard_normal((1, M)) + 1j * rng.standard_normal((1, M)))) for _ in range(p + 1)]
                f = FixedOutputs(outs)
                if ncp is None:
                    integ = cls(dt, jnp.asarray(L)[None, :], f)
                elif ncp == "radius2":
                    integ = cls(dt, jnp.asarray(L)[None, :], f, num_circle_points=32, circle_radius=2.0)
                elif ncp == "realdtype":
                    integ = cls(dt, jnp.asarray(np.real(L), dtype=jnp.float64)[None, :], f)
                else:
                    integ = cls(dt, jnp.asarray(L)[None, :], f, num_circle_points=ncp)
                u = np.zeros((1, M), dtype=complex) if zero_u else (rng.standard_normal((1, M)) + 1j * rng.standard_normal((1, M)))
                res = np.asarray(integ.step_fourier(jnp.asarray(u)))
                T = etdrk.Tableau(tab, p, (L * dt)[None, :])
                npo = [np.asarray(o) for o in outs]
                key0 = {"kind": "cover", "order": p, "mode": "default contour" if ncp is None else f"{ncp} contour nodes",
                        "contour": "default" if ncp is None else (ncp if isinstance(ncp, str) else ("odd" if ncp % 2 else "even"))}
                if len(f.inputs) != p:
                    run.violation(dict(key0, what="number of nonlinear evaluations"), {"got": len(f.inputs)})
                    continue
                for jdx in range(1, p + 2):
                    if jdx <= p:
                        got = f.inputs[jdx - 1]
                        pred = u if jdx == 1 else T.stage(jdx - 1, u, npo[: jdx - 1], dt)
                        what = f"input of evaluation {jdx}"
                    else:
                        got = res
                        pred = T.stage(p, u, npo[:p], dt)
                        what = "result"
                    # element-wise scale: magnitude of the individual contributions
                    r = T.rows[(jdx - 1 if jdx <= p else p) - 1] if jdx > 1 else None
                    if r is None:
                        scale = np.abs(u) + 1e-300
                    else:
                        scale = np.abs(r["u"] * u) + sum(dt * np.abs(a * npo[m]) for m, a in enumerate(r["n"]) if m < p) + 1e-300
                    rel = np.abs(got - pred) / scale
                    finite = np.isfinite(got).all()
                    bad = ~(rel <= 1e-10)
                    for idx in np.argwhere(bad)[:, 1] if bad.any() else []:
                        z = complex(zs[idx])
                        region = "zero" if z == 0 else ("real" if z.imag == 0 else ("imag" if z.real == 0 else "complex"))
                        run.violation(dict(key0, what=what, region=region, z=[z.real, z.imag]),
                                      {"rel_err": float(rel[0, idx]), "dt": dt, "got": complex(got[0, idx]), "pred": complex(pred[0, idx])})
                    if not finite:
                        run.violation(dict(key0, what="non-finite " + what), {})
                for z in zs:
                    run.case(("cover", p, complex(z)))
    run.sample({"cover_points": len(zs), "examples": [[float(z.real), float(z.imag)] for z in zs[:8]]})


def generic_cases(tier, rng):
    """(constructor name, D, N, kwargs, linear coefficient list, dt, L)"""
    out = []
    dims = [(1, 12), (1, 9), (2, 6)] if tier == "quick" else [(1, 12), (1, 9), (1, 16), (2, 6), (2, 5), (3, 4)]
    for D, N in dims:
        for name, kw in (
            ("GeneralConvectionStepper", dict(convection_scale=1.3)),
            ("GeneralConvectionStepper", dict(convection_scale=-0.7, single_channel=True)),
            ("GeneralConvectionStepper", dict(convection_scale=0.9, conservative=True)),
            ("GeneralGradientNormStepper", dict(gradient_norm_scale=0.8)),
            ("GeneralPolynomialStepper", dict(polynomial_coefficients=(0.0, 0.3, -0.4))),
            ("GeneralNonlinearStepper", dict(nonlinear_coefficients=(0.2, -0.6, 0.3))),
        ):
            for coefs in ((0.0, 0.0, 0.05), (0.1, -0.4, 0.02, 0.03), (0.0, 0.0, -0.02, 0.0, -0.001), (-0.2, 0.3, 0.01, -0.02, -0.0005)):
                out.append((name, D, N, kw, coefs, float(rng.choice([0.05, 0.3])), float(rng.choice([1.0, 2 * np.pi, 3.0]))))
    return out


def check_stage_traces(run, tab, ex, jnp, rng, tier):
    work = os.path.join(tlc.SCRATCH, f"c02lin.{os.getpid()}")
    os.makedirs(work, exist_ok=True)
    saved = (linear.QUICK_DN, linear.THOR_DN)
    linear.QUICK_DN = linear.THOR_DN = registry.SEMI_DN
    try:
        res = linear.run_model(run, "quick", work, maxj=6, maxt=0)
    finally:
        linear.QUICK_DN, linear.THOR_DN = saved
    tables, _ = linear.load(res)
    tlc.cleanup(res)
    shutil.rmtree(work, ignore_errors=True)
    traces, meta = [], []
    with etdrk.NonlinRecorder(ex) as rec:
        for name, D, N, kw, coefs, dt, L in generic_cases(tier, rng):
            table = tables[("GeneralLinear", False, D, N)]
            params = {("a", j, 0): (coefs[j] if j < len(coefs) else 0.0) for j in range(0, 7)}
            lam = linear.symbol_array(D, N, table, params, 2 * np.pi / L)
            for p in (1, 2, 3, 4):
                st = registry.make(name, D, N, L=L, dt=dt, order=p, linear_coefficients=coefs, **kw)
                C = st.num_channels
                u = rng.standard_normal((C,) + (N,) * D) * 0.5
                uh = ex.fft(jnp.asarray(u))
                ev, diag = etdrk.stage_trace(tab, p, st.step_fourier, uh, lam[None], dt, rec)
                traces.append({"p": p, "events": ev})
                meta.append({"cls": name, "D": D, "N": N, "order": p, "coefs": list(coefs), "kw": {k: str(v) for k, v in kw.items()}, "dt": dt, "L": L,
                             "max_rel": max(diag) if diag else None})
        # every public semi-linear stepper class (enumerated from the exports), default arguments, orders 1-4
        for name in registry.semilinear_names():
            for D in registry.dims_of(name):
                if tier == "quick" and D != registry.dims_of(name)[0] and name not in ("Burgers", "KortewegDeVries", "NormalizedConvectionStepper"):
                    continue
                for N in ((12, 9) if D == 1 else (6, 5) if D == 2 else (4,)):
                    kws = [dict()]
                    if name == "KortewegDeVries":
                        kws = [dict(), dict(advect_over_diffuse=True, diffuse_over_diffuse=True)] if D > 1 else [dict()]
                    for kw in kws:
                        L, dt = 3.0, 0.02
                        try:
                            lam, dte = registry.semi_lambda(name, D, N, tables, L=L, dt=dt, **kw)
                        except KeyError as e:
                            run.extra.setdefault("uncovered", []).append(f"{name}: no documented linear part in the registry ({e})")
                            continue
                        for p in (0, 1, 2, 3, 4):
                            st = registry.make(name, D, N, L=L, dt=dt, order=p, **kw)
                            C = st.num_channels
                            u = rng.standard_normal((C,) + (N,) * D) * 0.5
                            uh = ex.fft(jnp.asarray(u))
                            ev, diag = etdrk.stage_trace(tab, p, st.step_fourier, uh, lam, dte, rec)
                            traces.append({"p": p, "events": ev})
                            meta.append({"cls": name, "D": D, "N": N, "order": p, "coefs": [], "kw": {k: str(v) for k, v in kw.items()}, "dt": dt,
                                         "L": L, "max_rel": max(diag) if diag else None})
    verdicts = etdrk.validate_traces(run, traces, max_ulps=200000, label="steppers")
    for (acc, pref), m, tr in zip(verdicts, meta, traces):
        run.case(("trace", m["cls"], m["D"], m["N"], m["order"], tuple(m["coefs"]), tuple(sorted(m["kw"].items()))))
        if not acc:
            symkind = "complex" if any(abs(c) > 0 for c in m["coefs"][1::2]) or m["cls"] == "KortewegDeVries" else "real"
            run.violation({"kind": "stage-trace", "cls": m["cls"], "D": m["D"], "order": m["order"], "symbol": symkind},
                          {"accepted_prefix": pref, "events": tr["events"], "meta": m})
    run.traces += len(traces)
    run.sample({"trace": traces[0], "meta": meta[0]})
    # binding self-test
    import copy
    bad = []
    t = copy.deepcopy(traces[3])
    t["events"][2]["in_ulps"] = 10 ** 8
    bad.append(t)
    t = copy.deepcopy(traces[3])
    del t["events"][2]
    bad.append(t)
    t = copy.deepcopy(traces[3])
    t["events"].insert(3, dict(t["events"][2]))
    bad.append(t)
    vb = etdrk.validate_traces(run, bad, max_ulps=200000, label="selftest")
    if any(acc for acc, _ in vb):
        raise RuntimeError("binding self-test failed: corrupted ETDRK trace accepted")
    run.extra["selftest_corrupted_traces_rejected"] = len(bad)


def check_convergence(run_, ex, jnp, tier):
    """the property's second observation point: error of rollouts against a tight reference (order 4, 2048 steps) under dt-halving.
    A consequence of (tableau satisfies the order conditions: TLC) + (code = tableau: cover and traces); measured here on smooth problems
    whose errors stay between the asymptotic regime and the rounding floor.  Required: mean observed order over three halvings >= p - 0.35."""
    def problems():
        x = np.asarray(ex.make_grid(1, 2 * np.pi, 32))
        u1 = np.sin(x) + 0.5 * np.cos(2 * x)
        yield "Burgers", (lambda dt, p: ex.stepper.Burgers(1, 2 * np.pi, 32, dt, diffusivity=0.05, order=p)), u1, 0.5
        yield "KortewegDeVries", (lambda dt, p: ex.stepper.KortewegDeVries(1, 2 * np.pi, 32, dt, order=p)), 0.5 * u1, 0.25
        yield "FisherKPP", (lambda dt, p: ex.stepper.reaction.FisherKPP(1, 2 * np.pi, 32, dt, order=p)), 0.5 + 0.3 * u1, 0.5
        if tier != "quick":
            yield "KuramotoSivashinsky", (lambda dt, p: ex.stepper.KuramotoSivashinsky(1, 4 * np.pi, 32, dt, order=p)), 0.3 * u1, 0.5
            g = np.asarray(ex.make_grid(2, 2 * np.pi, 16))
            w = (np.sin(g[0]) * np.cos(2 * g[1]) + 0.5 * np.cos(g[0] + g[1]))[None]
            yield "NavierStokesVorticity", (lambda dt, p: ex.stepper.NavierStokesVorticity(2, 2 * np.pi, 16, dt, diffusivity=0.05, order=p)), w, 0.5
    table = {}
    for name, mk, u0, T in problems():
        u0 = jnp.asarray(u0)
        ref = np.asarray(ex.repeat(mk(T / 2048, 4), 2048)(u0))
        for p in (1, 2, 3, 4):
            errs = []
            for n in (8, 16, 32, 64):
                errs.append(maxabs(np.asarray(ex.repeat(mk(T / n, p), n)(u0)) - ref))
            run_.case(("convergence", name, p))
            usable = [e for e in errs if e > 1e-12]          # above the rounding floor of the reference
            if len(usable) < 3 or not np.all(np.isfinite(errs)):
                run_.extra.setdefault("convergence_unusable", []).append(f"{name}/{p}")
                continue
            slope = float(np.log2(usable[0] / usable[-1]) / (len(usable) - 1))
            table[f"{name}/{p}"] = round(slope, 2)
            if not slope >= p - 0.35:
                run_.violation({"kind": "convergence", "cls": name, "order": p}, {"errors": errs, "observed_order": slope})
    run_.extra["observed_orders"] = table


def run(tier: str, seed: int) -> int:
    run_ = Run(PID, tier, seed)
    setup_jax(True)
    import jax.numpy as jnp
    import exponax as ex
    rng = np.random.default_rng(seed)
    tab = etdrk.run_model(run_)
    check_cover(run_, tab, ex, jnp, rng, tier)
    check_stage_traces(run_, tab, ex, jnp, rng, tier)
    check_convergence(run_, ex, jnp, tier)
    run_.rule = ("cover: (order, z) pairs over the dense z cover x dt x {u=0, u random}, every stage input and the result compared element-wise; "
                 "traces: one recorded step per (stepper class, flags, D, N, order, linear coefficient list) validated by TLC")
    run_.assumptions = ["mpmath (60+ digits) evaluates the ring elements", "relative tolerance 1e-10 per element (cover), 2e5 ulps of the stage magnitude (traces)",
                        "the nonlinear-function call boundary exposes the stage values"]
    # the composed machine (spec/Session.tla): multi-step API sessions generated by TLC -simulate, replayed call by call; this check
    # reports the mismatches of the operations it owns (rk)
    if tier != "quick":
        from .. import session
        import jax.numpy as _jnp
        import exponax as _ex
        session.run_for(run_, tier, seed, _ex, _jnp, ['rk'], PID)
        from .. import sessiontrace   # the other direction: driver-chosen sessions executed by the library, every returned state validated by TLC (Trace_Session.tla)
        sessiontrace.run_for(run_, tier, seed, _ex, _jnp, ['rk'], PID)
    return run_.finish()


def replay(path):
    return run("quick", 0)
