"""Child process of the C19 check: runs the specification-enumerated configurations in ONE JAX session (default or x64) and reports
dtypes, finiteness, residuals against the mpmath prediction, and the result arrays (as float64) for the cross-session comparison."""
from __future__ import annotations

import json
import os
import pickle
import sys

import numpy as np


def main():
    job = pickle.load(open(os.environ["VERIF_C19_JOB"], "rb"))
    x64 = os.environ.get("VERIF_C19_X64") == "1"
    os.environ["JAX_PLATFORMS"] = "cpu"
    import jax
    jax.config.update("jax_enable_x64", x64)
    import jax.numpy as jnp
    import exponax as ex
    from harness import etdrk, registry
    from harness.checks.c02 import FixedOutputs
    eps = float(np.finfo(np.float64 if x64 else np.float32).eps)
    out = {"x64": x64, "default_float": str(jnp.zeros(()).dtype), "eps": eps, "dtype_cases": [], "ladder": [], "stiff": [], "errors": []}
    arrays = {}

    # ---- 1. dtype / finiteness / zero state for every public class x order
    for case in job["class_cases"]:
        name, D, N, order, cid = case["name"], case["D"], case["N"], case["order"], case["id"]
        try:
            st = registry.make(name, D, N, L=2.0, dt=0.02, order=order, **case.get("kw", {}))
        except Exception as e:  # noqa: BLE001
            out["errors"].append({"id": cid, "stage": "construct", "exception": repr(e)[:300]})
            continue
        C = st.num_channels
        rng = np.random.default_rng(case["seed"])
        u_np = rng.standard_normal((C,) + (N,) * D) * 0.3
        rec = {"id": cid, "name": name, "D": D, "N": N, "order": order, "by_request": {}}
        for req in ("f32", "f64"):
            u = jnp.asarray(u_np.astype(np.float32 if req == "f32" else np.float64))
            try:
                uh = ex.fft(u, num_spatial_dims=D)
                sf = st.step_fourier(uh)
                res = st(u)
            except Exception as e:  # noqa: BLE001
                out["errors"].append({"id": cid, "stage": f"step[{req}]", "exception": repr(e)[:300]})
                continue
            rec["by_request"][req] = {"input": str(u.dtype), "fft": str(uh.dtype), "step_fourier": str(sf.dtype), "result": str(res.dtype),
                                      "finite": bool(np.isfinite(np.asarray(res)).all()), "shape_ok": tuple(res.shape) == tuple(u.shape)}
            if req == "f32":
                arrays[f"class/{cid}"] = np.asarray(res, dtype=np.float64)
        # every intermediate value of the traced step (float64 request): dtypes of all equation outputs, sub-computations included
        try:
            u_top = jnp.asarray(u_np.astype(np.float64 if x64 else np.float32))
            seen = set()

            def walk(jpr):
                for eqn in jpr.eqns:
                    for ov in eqn.outvars:
                        dt_ = getattr(getattr(ov, "aval", None), "dtype", None)
                        if dt_ is not None:
                            seen.add(str(dt_))
                    for sub in eqn.params.values():
                        for cand in (sub if isinstance(sub, (list, tuple)) else [sub]):
                            inner = getattr(cand, "jaxpr", None)
                            if inner is not None:
                                walk(inner if hasattr(inner, "eqns") else inner.jaxpr)
                            elif hasattr(cand, "eqns"):
                                walk(cand)
            walk(jax.make_jaxpr(st)(u_top).jaxpr)
            rec["intermediate_dtypes"] = sorted(seen)
        except Exception as e:  # noqa: BLE001
            rec["intermediate_dtypes"] = None
            out["errors"].append({"id": cid, "stage": "jaxpr", "exception": repr(e)[:300]})
        # the arrays the stepper carries (operators, coefficients, masks) are built under the session default
        rec["leaf_dtypes"] = sorted({str(x.dtype) for x in jax.tree_util.tree_leaves(st) if hasattr(x, "dtype")})
        # precision faithfulness of linear steppers: two half steps == one full step, to the session's own rounding
        if order in (None, 0) and registry.takes_physical(type(st)):
            try:
                half = registry.make(name, D, N, L=2.0, dt=0.01, order=order, **case.get("kw", {}))
                # Nyquist-free state: with Nyquist content and an odd-order symbol the intermediate irfft legitimately differs (C14's caveat)
                u_nf = ex.ifft(ex.fft(u_top, num_spatial_dims=D) * ex.spectral.oddball_filter_mask(D, N), num_spatial_dims=D, num_points=N)
                a = np.asarray(st(u_nf), dtype=np.float64)
                b = np.asarray(half(half(u_nf)), dtype=np.float64)
                rec["semigroup_rel"] = float(np.max(np.abs(a - b)) / (1.0 + np.max(np.abs(a))))
            except Exception as e:  # noqa: BLE001
                out["errors"].append({"id": cid, "stage": "semigroup", "exception": repr(e)[:300]})
        z = st(jnp.zeros((C,) + (N,) * D))
        rec["zero"] = {"finite": bool(np.isfinite(np.asarray(z)).all()), "maxabs": float(np.max(np.abs(np.asarray(z)))), "dtype": str(z.dtype)}
        out["dtype_cases"].append(rec)

    # ---- 2. the stiffness ladder through the public ETDRKp with a diagonal linear operator
    tab = job["tableau"]
    zs = np.asarray(job["ladder"], dtype=complex)
    M = len(zs)
    classes = {0: ex.etdrk.ETDRK0, 1: ex.etdrk.ETDRK1, 2: ex.etdrk.ETDRK2, 3: ex.etdrk.ETDRK3, 4: ex.etdrk.ETDRK4}
    cdt = np.complex128 if x64 else np.complex64
    for p, cls in classes.items():
        for dt in job["ladder_dts"]:
            rng = np.random.default_rng(1000 * p + int(dt * 7))
            L = (zs / dt).astype(cdt)
            outs = [jnp.asarray((rng.standard_normal((1, M)) + 1j * rng.standard_normal((1, M))).astype(cdt)) for _ in range(p + 1)]
            u = (rng.standard_normal((1, M)) + 1j * rng.standard_normal((1, M))).astype(cdt)
            f = FixedOutputs(outs)
            try:
                integ = cls(dt, jnp.asarray(L)[None, :]) if p == 0 else cls(dt, jnp.asarray(L)[None, :], f)
                res = np.asarray(integ.step_fourier(jnp.asarray(u)))
                leaves = [np.asarray(x) for x in jax.tree_util.tree_leaves(integ) if hasattr(x, "dtype")]
            except Exception as e:  # noqa: BLE001
                out["errors"].append({"id": f"ladder/{p}/{dt}", "stage": "ladder", "exception": repr(e)[:300]})
                continue
            coef_finite = all(bool(np.isfinite(x).all()) for x in leaves)
            coef_dtypes = sorted({str(x.dtype) for x in leaves if np.iscomplexobj(x)})
            # prediction from the specification's tableau at the z the session actually holds (z = dt * L as stored)
            zz = (np.asarray(L, dtype=np.complex128) * dt)[None, :]
            T = etdrk.Tableau(tab, p, zz) if p > 0 else None
            npo = [np.asarray(o, dtype=np.complex128) for o in outs]
            u128 = u.astype(np.complex128)
            if p == 0:
                import mpmath as mp
                mp.mp.dps = 40
                pred = np.array([[complex(mp.exp(mp.mpc(complex(z)))) for z in zz[0]]]) * u128
                scale = np.abs(pred) + np.abs(u128) * 1e-30 + 1e-300
            else:
                pred = T.stage(p, u128, npo[:p], dt)
                r = T.rows[p - 1]
                scale = np.abs(r["u"] * u128) + sum(dt * np.abs(a * npo[m]) for m, a in enumerate(r["n"]) if m < p) + 1e-300
            rel = np.abs(res.astype(np.complex128) - pred) / scale
            # argument rounding: the session stores L (hence z) in its own precision; exp(z) for purely imaginary / complex z
            # has condition number |z|, which is the code's legitimate rounding
            cond = 1.0 + np.abs(zz)
            out["ladder"].append({"order": p, "dt": dt, "coef_finite": coef_finite, "coef_dtypes": coef_dtypes,
                                  "result_finite": bool(np.isfinite(res).all()), "result_dtype": str(res.dtype),
                                  "rel": rel[0].tolist(), "cond": cond[0].tolist(),
                                  "stage_inputs_finite": all(bool(np.isfinite(x).all()) for x in f.inputs)})
            arrays[f"ladder/{p}/{dt}"] = np.stack([res.real, res.imag]).astype(np.float64)

    # ---- 3. stiff instances of real steppers (fine grids, high-order dissipation, large dt)
    for case in job["stiff_cases"]:
        cid = case["id"]
        try:
            st = registry.make(case["name"], case["D"], case["N"], L=case["L"], dt=case["dt"], order=case["order"], **case.get("kw", {}))
            C = st.num_channels
            rng = np.random.default_rng(case["seed"])
            # an O(1) smooth state (a few low modes per channel): the stiffness comes from the linear operator on the fine grid
            grid = np.asarray(ex.make_grid(case["D"], case["L"], case["N"]))
            u_np = np.zeros((C,) + (case["N"],) * case["D"])
            for c in range(C):
                for m in (1, 2, 3):
                    kvec = rng.integers(-m, m + 1, size=case["D"])
                    u_np[c] += rng.uniform(-0.5, 0.5) * np.cos(2 * np.pi / case["L"] * sum(kvec[d] * grid[d] for d in range(case["D"])) + rng.uniform(0, 6.28))
            u32 = u_np.astype(np.float32)
            u = jnp.asarray(u32)
            res = st(u)
            if x64:
                # conditioning of this step under perturbations of the size of single-precision rounding (used to scale the cross-session bound)
                pert = u32.astype(np.float64) * (1.0 + 1.1920929e-07 * rng.uniform(-1, 1, u32.shape)) + 1.1920929e-07 * rng.uniform(-1, 1, u32.shape) * np.max(np.abs(u32))
                arrays[f"pert/{cid}"] = np.asarray(st(jnp.asarray(pert)), dtype=np.float64)
            z = st(jnp.zeros_like(u))
            coefs = [np.asarray(x) for x in jax.tree_util.tree_leaves(st) if hasattr(x, "dtype") and np.issubdtype(np.asarray(x).dtype, np.inexact)]
            out["stiff"].append({"id": cid, "result_dtype": str(res.dtype), "finite": bool(np.isfinite(np.asarray(res)).all()),
                                 "zero_finite": bool(np.isfinite(np.asarray(z)).all()), "zero_maxabs": float(np.max(np.abs(np.asarray(z)))),
                                 "coef_finite": all(bool(np.isfinite(x).all()) for x in coefs),
                                 "stiffness": float(max((np.max(np.abs(x)) for x in coefs if np.iscomplexobj(x)), default=0.0)),
                                 "in_max": float(np.max(np.abs(u_np)))})
            arrays[f"stiff/{cid}"] = np.asarray(res, dtype=np.float64)
        except Exception as e:  # noqa: BLE001
            out["errors"].append({"id": cid, "stage": "stiff", "exception": repr(e)[:300]})
    json.dump(out, open(os.environ["VERIF_C19_OUT"] + ".json", "w"))
    np.savez(os.environ["VERIF_C19_OUT"] + ".npz", **arrays)


if __name__ == "__main__":
    sys.exit(main())
