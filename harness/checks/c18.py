"""C18 Initial-condition generators honour their documented contract.

MC_IC (TLC) runs every generator x option combination x wrapper nesting x multi-channel wrapper x D through the documented pipeline
(Validate, Draw, Shape, Offset, ZeroMean, StdOne, MaxOne, Wrap*, Multi) acting on a record of facts with exact rational values and
checks promise/consistency/reject/clamp/spectral invariants.  Every terminal state is replayed: rejected configurations must raise
ValueError at construction; accepted ones are built, called for several keys and grids, and every established fact is measured."""
from __future__ import annotations

import math
import os
import shutil

import numpy as np

from .. import tlc
from ..evidence import Run
from ..num import fq, setup_jax
from ..tlaval import iter_dump_states

PID = "C18"
INVS = ["PromiseOK", "ConsistentOK", "RejectOK", "ClampOK", "SpectralOK"]
ALL_GENS = ["WhiteNoise", "RandomTruncatedFourierSeries", "GaussianRandomField", "DiffusedNoise", "RandomDiscontinuities",
            "RandomGaussianBlobs", "RandomSineWaves1d"]
OFF = {"zero": (0.0, 0.0), "const": (1.5, 1.5), "range": (0.5, 2.5)}
CLAMP = (-0.5, 2.0)
SCALE = {"scale3": 3.0, "scalem2": -2.0}
CUTOFF = 2
ALPHA = 2.5
NU = 0.002
TOL = 1e-9


def opt_q(v):
    return None if v[1] == 0 else float(fq(v))


def build_inner(ex, gen, opt, D, L):
    ic = ex.ic
    norm = dict(std_one=opt["std"], max_one=opt["mx"])
    if gen == "WhiteNoise":
        return ic.WhiteNoise(D)
    if gen == "RandomTruncatedFourierSeries":
        return ic.RandomTruncatedFourierSeries(D, cutoff=CUTOFF, offset_range=OFF[opt["off"]], **norm)
    if gen == "GaussianRandomField":
        return ic.GaussianRandomField(D, domain_extent=L, powerlaw_exponent=ALPHA, zero_mean=opt["zm"], **norm)
    if gen == "DiffusedNoise":
        return ic.DiffusedNoise(D, domain_extent=L, intensity=NU, zero_mean=opt["zm"], **norm)
    if gen == "RandomDiscontinuities":
        return ic.RandomDiscontinuities(D, domain_extent=L, zero_mean=opt["zm"], **norm)
    if gen == "RandomGaussianBlobs":
        return ic.RandomGaussianBlobs(D, domain_extent=L, num_blobs=2, one_complement=opt["flag"])
    if gen == "RandomSineWaves1d":
        return ic.RandomSineWaves1d(D, domain_extent=L, cutoff=CUTOFF, offset_range=OFF[opt["off"]], **norm)
    raise KeyError(gen)


def wrap(ex, g, wraps):
    for w in wraps:
        g = ex.ic.ClampingICGenerator(g, limits=CLAMP) if w == "clamp" else ex.ic.ScaledICGenerator(g, SCALE[w])
    return g


def run(tier: str, seed: int) -> int:
    run_ = Run(PID, tier, seed)
    jax = setup_jax(True)
    import jax.numpy as jnp
    import exponax as ex
    rng = np.random.default_rng(seed)
    work = os.path.join(tlc.SCRATCH, f"c18.{os.getpid()}")
    os.makedirs(work, exist_ok=True)
    public = sorted(n for n in dir(ex.ic) if n.startswith("Random") or n in ("WhiteNoise", "GaussianRandomField", "DiffusedNoise"))
    known = set(ALL_GENS) | {"RandomMultiChannelICGenerator"}
    run_.extra["uncovered_public_generators"] = sorted(set(public) - known)
    gens = [g for g in ALL_GENS if hasattr(ex.ic, g)]
    for g in set(ALL_GENS) - set(gens):
        run_.violation({"kind": "missing-generator", "what": g}, {})
    cfg = os.path.join(work, "MC_IC.cfg")
    tlc.write_cfg(cfg, spec="Spec", constants={"Gens": "{" + ",".join('"%s"' % g for g in gens) + "}", "MaxWrap": 1 if tier == "quick" else 2,
                                               "Dims": "{1, 2, 3}"}, invariants=INVS)
    res = tlc.run_tlc("MC_IC", cfg, workers=8, dump=True, timeout=3000, coverage=True)
    run_.add_tlc(res, "MC_IC")
    if not res.ok:
        run_.violation({"kind": "spec", "invariant": res.violated}, {"trace": res.trace_text})
    for act in ("Validate", "Draw", "Shape", "Offset", "ZeroMean", "StdOne", "MaxOne", "Wrap", "Multi"):
        if res.coverage.get(act, (0, 0))[0] == 0:
            raise RuntimeError(f"vacuous model: action {act} never taken")
    terminals = list(iter_dump_states(res.dump, must_contain='pc = "done"'))
    tlc.cleanup(res)

    keys_per = 2 if tier == "quick" else 3
    sizes = {1: (12, 17), 2: (10, 9), 3: (8, 7)} if tier == "quick" else {1: (12, 17, 32), 2: (10, 9, 16), 3: (8, 7)}
    nsamp = 0
    ncase = 0
    for st in terminals:
        gen, opt, D, wraps, multi, verdict, F = st["gen"], st["opt"], st["D"], list(st["wraps"]), st["multi"], st["verdict"], st["facts"]
        L = float(rng.choice([1.0, 2 * math.pi, 3.0]))
        key_id = {"cls": gen, "D": D, "what": f"std={opt['std']},mx={opt['mx']},zm={opt['zm']},off={opt['off']}", "mode": "+".join(wraps) or "bare",
                  "multi": multi}
        ncase += 1
        run_.case((gen, repr(sorted(opt.items())), D, tuple(wraps), multi))
        if verdict == "reject":
            try:
                build_inner(ex, gen, opt, D, L)
                run_.violation(dict(key_id, kind="accepted-invalid-options"), {"opt": opt})
            except ValueError:
                pass
            except Exception as e:  # noqa: BLE001
                run_.violation(dict(key_id, kind="wrong-exception"), {"opt": opt, "exception": repr(e)})
            continue
        try:
            inner = build_inner(ex, gen, opt, D, L)
            G = wrap(ex, inner, wraps)
            subs = [G]
            if multi:
                # heterogeneous members; all members keep a function form when the configuration has one (so that it can be compared)
                subs = [G] * multi if F["fun"] else [G] * (multi - 1) + [ex.ic.WhiteNoise(D)]
                top = ex.ic.RandomMultiChannelICGenerator(tuple(subs))
            else:
                top = G
        except Exception as e:  # noqa: BLE001
            run_.violation(dict(key_id, kind="rejected-valid-options"), {"opt": opt, "exception": repr(e)})
            continue
        fact = {k: opt_q(F[k]) for k in ("mean", "mlo", "mhi", "std", "maxabs", "min", "max")}
        for N in sizes[D]:
            for kk in range(keys_per):
                key = jax.random.PRNGKey(int(rng.integers(0, 2 ** 31 - 1)))

                def bad(what, **detail):
                    run_.violation(dict(key_id, kind="fact", symbol=what), dict(detail, N=N, L=L, opt=opt, wraps=wraps, key=np.asarray(key).tolist()))
                try:
                    out = np.asarray(top(N, key=key))
                    out2 = np.asarray(top(N, key=key))
                except Exception as e:  # noqa: BLE001
                    bad("call-raised", exception=repr(e))
                    continue
                run_.evaluations += 1
                want_shape = (F["chan"],) + (N,) * D
                if out.shape != want_shape:
                    bad("shape", got=list(out.shape), want=list(want_shape))
                    continue
                if not np.array_equal(out, out2, equal_nan=True):
                    bad("deterministic")
                # degenerate draws (a constant raw field: every box between grid points) cannot be normalised; counted as trivial
                degenerate = False
                if gen == "RandomDiscontinuities":
                    sub_keys = list(jax.random.split(key, multi)) if multi else [key]
                    degenerate = any(np.ptp(np.asarray(ex.ic.RandomDiscontinuities(D, domain_extent=L)(N, key=k_))) == 0.0 for k_ in sub_keys)
                if degenerate:
                    continue
                if not np.all(np.isfinite(out)):
                    bad("finite")
                    continue
                other = np.asarray(top(N, key=jax.random.fold_in(key, 1)))
                if np.array_equal(out, other):
                    bad("key-ignored")
                if multi:
                    ks = jax.random.split(key, multi)
                    for j, sg in enumerate(subs):
                        ch = np.asarray(sg(N, key=ks[j]))
                        if ch.shape != (1,) + (N,) * D or not np.allclose(out[j:j + 1], ch, rtol=0, atol=1e-12):
                            bad("multi-channel-member", channel=j)
                    u = out[0:1]
                    k0 = ks[0]
                else:
                    u, k0 = out, key
                scale = 1.0 + float(np.max(np.abs(u)))
                m = float(np.mean(u))
                if fact["mean"] is not None and abs(m - fact["mean"]) > TOL * scale:
                    bad("mean", got=m, want=fact["mean"])
                if fact["mlo"] is not None and not (fact["mlo"] - TOL * scale <= m <= fact["mhi"] + TOL * scale):
                    bad("mean-range", got=m, want=[fact["mlo"], fact["mhi"]])
                if fact["std"] is not None and abs(float(np.std(u)) - fact["std"]) > TOL * scale:
                    bad("std", got=float(np.std(u)), want=fact["std"])
                if fact["maxabs"] is not None and abs(float(np.max(np.abs(u))) - fact["maxabs"]) > TOL * scale:
                    bad("maxabs", got=float(np.max(np.abs(u))), want=fact["maxabs"])
                if fact["min"] is not None and abs(float(np.min(u)) - fact["min"]) > TOL * scale:
                    bad("min", got=float(np.min(u)), want=fact["min"])
                if fact["max"] is not None and abs(float(np.max(u)) - fact["max"]) > TOL * scale:
                    bad("max", got=float(np.max(u)), want=fact["max"])
                if F["range01"] and not (np.min(u) >= -1e-12 and np.max(u) <= 1 + 1e-12):
                    bad("range01", got=[float(np.min(u)), float(np.max(u))])
                uh = np.asarray(ex.fft(jnp.asarray(u)))
                kk_ = np.asarray(ex.spectral.build_wavenumbers(D, N))
                if F["band"] >= 0:
                    outside = np.max(np.abs(kk_), axis=0, keepdims=True) > F["band"]
                    inside_mag = float(np.max(np.abs(uh)))
                    if float(np.max(np.abs(uh) * outside)) > 1e-9 * (1 + inside_mag):
                        bad("band", leak=float(np.max(np.abs(uh) * outside)), cutoff=F["band"])
                    if not float(np.max(np.abs(uh) * (~outside) * (np.sum(kk_ ** 2, axis=0, keepdims=True) > 0))) > 1e-6 * inside_mag:
                        bad("band-empty")
                if F["law"] != "none":
                    w = 2 * math.pi / L
                    k2 = np.sum(kk_ ** 2, axis=0, keepdims=True) * w * w
                    with np.errstate(divide="ignore"):
                        law = np.where(k2 > 0, k2 ** (-ALPHA / 4), 1.0) if F["law"] == "powerlaw" else np.exp(-NU * k2)
                    okc = False
                    for cand in (k0, jax.random.split(k0)[0], jax.random.split(k0)[1]):
                        wh = np.asarray(ex.fft(ex.ic.WhiteNoise(D)(N, key=cand)))
                        shaped = law * wh
                        nz = (k2 > 0)
                        big = nz & (np.abs(shaped) > 1e-3 * np.max(np.abs(shaped[nz])))
                        c = np.vdot(shaped[big], uh[big]) / np.vdot(shaped[big], shaped[big])          # least-squares factor on the significant modes
                        resid = np.max(np.abs(uh[nz] - c * shaped[nz]))
                        # absolute criterion: strongly damped modes are below the rounding of the transform of the field
                        if abs(c) > 1e-12 and resid <= 1e-9 * np.max(np.abs(uh[nz])) and abs(c.imag) <= 1e-9 * abs(c):
                            okc = True
                            if F["lawdc"]:
                                dc = uh.flatten()[0] / wh.flatten()[0]
                                if abs(c - 1) > 1e-9 or abs(dc - 1) > 1e-9:
                                    bad("law-unit-factor", c=[c.real, c.imag], dc=[dc.real, dc.imag])
                            break
                    if not okc:
                        bad("spectral-law", law=F["law"])
                if F["fun"]:
                    grid = ex.make_grid(D, L, N)
                    try:
                        via_fun = np.asarray(top.gen_ic_fun(key=key)(grid))
                        if via_fun.shape != out.shape or not np.allclose(via_fun, out, rtol=0, atol=1e-12 * scale):
                            bad("function-form")
                    except Exception as e:  # noqa: BLE001
                        bad("function-form-raised", exception=repr(e))
                if nsamp < 5 and wraps and D > 1 and kk == 0:
                    run_.sample({"gen": gen, "opt": opt, "D": D, "N": N, "wrappers": wraps, "multi": multi,
                                 "facts": {k: v for k, v in fact.items() if v is not None}, "band": F["band"], "law": F["law"],
                                 "measured": {"mean": m, "std": float(np.std(u)), "min": float(np.min(u)), "max": float(np.max(u))}})
                    nsamp += 1
    run_.traces = ncase
    # ---- the cutoff parameter of the truncated series (fixed at 2 above): 0 (constant field), 1, 3 and beyond the grid's Nyquist wavenumber
    for D in (1, 2, 3):
        for N in ((8, 9, 13) if D < 3 else (6, 7)):
            for cutoff in (0, 1, 3, N // 2, N // 2 + 2):
                for off in ("const", "range"):
                    key = jax.random.PRNGKey(int(rng.integers(0, 2 ** 31)))
                    u = np.asarray(ex.ic.RandomTruncatedFourierSeries(D, cutoff=cutoff, offset_range=OFF[off])(N, key=key))
                    run_.evaluations += 1
                    run_.case(("cutoff", D, N, cutoff, off))
                    kk_ = np.asarray(ex.spectral.build_wavenumbers(D, N))
                    uh = np.asarray(ex.fft(jnp.asarray(u)))
                    outside = np.max(np.abs(kk_), axis=0, keepdims=True) > cutoff
                    keyv = {"kind": "cutoff", "gen": "RandomTruncatedFourierSeries", "D": D, "cutoff_is_zero": cutoff == 0, "offset": off}
                    if u.shape != (1,) + (N,) * D:
                        run_.violation(dict(keyv, mode="shape"), {"shape": list(u.shape)})
                        continue
                    leak = float(np.max(np.abs(uh) * outside)) if outside.any() else 0.0
                    if leak > 1e-9 * (1 + float(np.max(np.abs(uh)))):
                        run_.violation(dict(keyv, mode="band"), {"N": N, "cutoff": cutoff, "leak": leak})
                    m = float(np.mean(u))
                    lo, hi = OFF[off]
                    if not (lo - 1e-9 <= m <= hi + 1e-9):
                        run_.violation(dict(keyv, mode="mean-range"), {"N": N, "cutoff": cutoff, "mean": m})
                    if cutoff == 0 and float(np.max(np.abs(u - m))) > 1e-9:
                        run_.violation(dict(keyv, mode="cutoff 0 is not a constant field"), {"N": N, "dev": float(np.max(np.abs(u - m)))})
                    if cutoff >= 1:
                        # every retained wavenumber shell carries something (a uniform draw is never exactly 0)
                        inside = (~outside) & (np.sum(kk_ ** 2, axis=0, keepdims=True) > 0)
                        nyq = np.max(np.abs(kk_), axis=0, keepdims=True) * 2 >= N
                        sel = inside & ~nyq
                        if sel.any() and not float(np.min(np.abs(uh)[sel])) > 0:
                            run_.violation(dict(keyv, mode="retained mode empty"), {"N": N, "cutoff": cutoff})
    for N in (8, 9, 16):
        for cutoff in (1, 3, 5):
            g = ex.ic.RandomSineWaves1d(1, domain_extent=3.0, cutoff=cutoff, offset_range=OFF["const"])
            key = jax.random.PRNGKey(int(rng.integers(0, 2 ** 31)))
            u = np.asarray(g(N, key=key))
            run_.evaluations += 1
            run_.case(("cutoff-sine", N, cutoff))
            if 2 * cutoff < N:
                uh = np.abs(np.asarray(ex.fft(jnp.asarray(u))))[0]
                if float(np.max(uh[cutoff + 1:], initial=0.0)) > 1e-9 * (1 + float(np.max(uh))) or abs(float(np.mean(u)) - 1.5) > 1e-9:
                    run_.violation({"kind": "cutoff", "gen": "RandomSineWaves1d", "D": 1, "mode": "band/mean"}, {"N": N, "cutoff": cutoff})
    # ---- the normalisation options are statements about the RETURNED array, whatever the grid resolves: unit standard deviation / unit maximum on
    # grids that are coarse for the generator's cutoff (N <= 2 cutoff), for hand-built sine sums with repeated or non-integer wavenumbers
    mk_norm = [("RandomSineWaves1d", 1, lambda kw: ex.ic.RandomSineWaves1d(1, domain_extent=3.0, cutoff=5, **kw)),
               ("RandomTruncatedFourierSeries", 1, lambda kw: ex.ic.RandomTruncatedFourierSeries(1, cutoff=5, **kw)),
               ("RandomTruncatedFourierSeries", 2, lambda kw: ex.ic.RandomTruncatedFourierSeries(2, cutoff=4, **kw)),
               ("GaussianRandomField", 1, lambda kw: ex.ic.GaussianRandomField(1, **kw)),
               ("DiffusedNoise", 2, lambda kw: ex.ic.DiffusedNoise(2, **kw))]
    for gname, D, mk in mk_norm:
        for N in (7, 9, 10, 33):
            for flag in ("std_one", "max_one"):
                key = jax.random.PRNGKey(int(rng.integers(0, 2 ** 31)))
                try:
                    zm = gname in ("GaussianRandomField", "DiffusedNoise")
                    u = np.asarray(mk(dict({flag: True}, **({"zero_mean": True} if zm else {})))(N, key=key), dtype=np.float64)
                except Exception as e:  # noqa: BLE001
                    run_.violation({"kind": "normalisation", "gen": gname, "D": D, "mode": "raised"}, {"N": N, "flag": flag, "exception": repr(e)[:200]})
                    continue
                run_.evaluations += 1
                run_.case(("normalisation-coarse", gname, D, N, flag))
                val = float(np.std(u)) if flag == "std_one" else float(np.max(np.abs(u)))
                if not np.all(np.isfinite(u)) or abs(val - 1.0) > 1e-5 or (zm and abs(float(np.mean(u))) > 1e-5):
                    run_.violation({"kind": "normalisation", "gen": gname, "D": D, "mode": flag}, {"N": N, "measured": val, "mean": float(np.mean(u))})
    for wn in ((1.0, 3.0), (2.0, 2.0), (1.5, 2.0), (5.0, 6.0)):
        for N in (8, 11, 16):
            for flag in ("std_one", "max_one"):
                sw = ex.ic.SineWaves1d(2.0, (0.7, -1.2), wn, (0.2, 1.0), offset=0.0, **{flag: True})
                u = np.asarray(sw(jnp.asarray(ex.make_grid(1, 2.0, N))), dtype=np.float64)
                run_.evaluations += 1
                run_.case(("normalisation-sines", wn, N, flag))
                val = float(np.std(u)) if flag == "std_one" else float(np.max(np.abs(u)))
                if abs(val - 1.0) > 1e-5:
                    run_.violation({"kind": "normalisation", "gen": "SineWaves1d", "D": 1, "mode": flag}, {"N": N, "wavenumbers": list(wn), "measured": val})
    # ---- clamping is an affine map of the draw onto [lo, hi] whatever the magnitude of the draw: wrapped generators scaled over twenty decades
    for gname, D, mk in (("RandomTruncatedFourierSeries", 1, lambda: ex.ic.RandomTruncatedFourierSeries(1, cutoff=3)),
                         ("GaussianRandomField", 2, lambda: ex.ic.GaussianRandomField(2))):
        for sc in (1.0, 1e-9, -1e-12, 1e8, -2.5e-7, 1e-18, -3e-21, 1e-30):
            N = 12
            key = jax.random.PRNGKey(int(rng.integers(0, 2 ** 31)))
            raw = np.asarray(mk()(N, key=key), dtype=np.float64)
            g = ex.ic.ClampingICGenerator(ex.ic.ScaledICGenerator(mk(), sc), limits=(-0.5, 2.0))
            u = np.asarray(g(N, key=key), dtype=np.float64)
            run_.evaluations += 1
            run_.case(("clamp-scale", gname, D, sc))
            aff = (raw - raw.min()) / (raw.max() - raw.min()) if sc > 0 else (raw.max() - raw) / (raw.max() - raw.min())
            want = -0.5 + 2.5 * aff
            if not np.all(np.isfinite(u)) or abs(u.min() + 0.5) > 1e-5 or abs(u.max() - 2.0) > 1e-5 or float(np.max(np.abs(u - want))) > 2e-5:
                run_.violation({"kind": "clamp", "gen": gname, "D": D, "mode": "limits not reached / not the affine image of the draw"},
                               {"scale": sc, "min": float(u.min()), "max": float(u.max())})
    # ---- directly nested scaling wrappers (the quick model nests one wrapper): sampled form, function form and factor product agree
    for gname, mk in (("RandomSineWaves1d", lambda: ex.ic.RandomSineWaves1d(1, domain_extent=2.0, cutoff=3)),
                      ("RandomGaussianBlobs", lambda: ex.ic.RandomGaussianBlobs(2, domain_extent=2.0, num_blobs=2)),
                      ("RandomDiscontinuities", lambda: ex.ic.RandomDiscontinuities(1, domain_extent=2.0)),
                      ("RandomTruncatedFourierSeries", lambda: ex.ic.RandomTruncatedFourierSeries(2, cutoff=2))):
        base = mk()
        D = base.num_spatial_dims
        for factors in ((3.0, -2.0), (0.5, 0.5, 4.0)):
            g = base
            for f_ in factors:
                g = ex.ic.ScaledICGenerator(g, f_)
            key = jax.random.PRNGKey(int(rng.integers(0, 2 ** 31)))
            N = 12
            run_.evaluations += 1
            run_.case(("nested-scale", gname, factors))
            ref = np.asarray(base(N, key=key)) * float(np.prod(factors))
            got = np.asarray(g(N, key=key))
            keyv = {"kind": "nested-scale", "gen": gname, "depth": len(factors)}
            if got.shape != ref.shape or not np.allclose(got, ref, rtol=0, atol=1e-12 * (1 + float(np.max(np.abs(ref))))):
                run_.violation(dict(keyv, mode="sampled form != product of the factors x inner draw"), {"factors": list(factors)})
            if gname != "RandomTruncatedFourierSeries":
                try:
                    vf = np.asarray(g.gen_ic_fun(key=key)(ex.make_grid(D, 2.0, N)))
                    if vf.shape != ref.shape or not np.allclose(vf, ref, rtol=0, atol=1e-12 * (1 + float(np.max(np.abs(ref))))):
                        run_.violation(dict(keyv, mode="function form != product of the factors x inner draw"), {"factors": list(factors)})
                except Exception as e:  # noqa: BLE001
                    run_.violation(dict(keyv, mode="function form raised"), {"exception": repr(e)[:200]})
    # ---- the deterministic building blocks behind the random generators (function forms with known closed forms)
    for D in (1, 2, 3):
        N, L = 12, 2.0
        grid = ex.make_grid(D, L, N)
        d = ex.ic.Discontinuities((ex.ic._discontinuities.Discontinuity((0.3,) * D, (1.1,) * D, 2.0),), zero_mean=False)
        got = np.asarray(d(grid))
        g = np.asarray(grid)
        want = np.where(np.all((g > 0.3) & (g < 1.1), axis=0, keepdims=True), 2.0, 0.0)
        run_.evaluations += 1
        if got.shape != (1,) + (N,) * D or not np.array_equal(got, want):
            run_.violation({"kind": "function-form", "cls": "Discontinuities", "D": D}, {"shape": list(got.shape)})
    s = ex.ic.SineWaves1d(2.0, (0.5, -1.5), (1, 3), (0.2, 1.0), offset=0.25)
    g1 = np.asarray(ex.make_grid(1, 2.0, 16))
    want = 0.5 * np.sin(1 * math.pi * g1 + 0.2) - 1.5 * np.sin(3 * math.pi * g1 + 1.0) + 0.25
    run_.evaluations += 1
    if not np.allclose(np.asarray(s(jnp.asarray(g1))), want, atol=1e-12):
        run_.violation({"kind": "function-form", "cls": "SineWaves1d", "D": 1}, {})
    run_.rule = ("one case per terminal TLC state = (generator, option flags, offset kind, wrapper nesting, multi-channel copies, D); accepted "
                 "configurations are called for several keys on an even and an odd grid and every fact of the final record is measured; "
                 "rejected ones must raise ValueError at construction")
    run_.exhaustive = True
    run_.assumptions = ["fixed parameter instances (offset 3/2, range [1/2,5/2], clamp (-1/2,2), scales 3/-2, cutoff 2, exponent 2.5, intensity 0.002)",
                        "degenerate draws of RandomDiscontinuities (constant raw field) are skipped", "values of random draws are not predicted",
                        "the spectral law is measured against WhiteNoise(D)(N, key') for key' in {key, split(key)[0], split(key)[1]}", "tolerance 1e-9"]
    shutil.rmtree(work, ignore_errors=True)
    return run_.finish()


def replay(path):
    return run("quick", 0)
