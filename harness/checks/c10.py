"""C10 Incompressibility is enforced and preserved."""
from __future__ import annotations

import os
import shutil

import numpy as np

from .. import monitor, nonlin, registry, tlc, zoo
from ..evidence import Run
from ..num import maxabs, setup_jax

PID = "C10"


def divergence_hat(ex, jnp, u, L):
    D, N = u.shape[0], u.shape[-1]
    dop = np.asarray(ex.spectral.build_derivative_operator(D, L, N))
    return np.sum(dop * np.asarray(ex.fft(jnp.asarray(u))), axis=0)


def check_projectors(run, ex, jnp, rng, tier):
    for D in (2, 3):
        for N in ((8, 9, 12, 7) if D == 2 else (6, 7)):
          # the projector is scale free: domain extents over many decades (the Laplace symbol runs from 1e-7 to 1e+8)
          for L in (float(rng.choice([1.0, 2 * np.pi, 3.7])), 700.0, 5.0e3, 2.0e-3):
            dop = ex.spectral.build_derivative_operator(D, L, N)
            P = ex.nonlin_fun.Leray(D, N, derivative_operator=dop)
            for rep in range(3 if L < 100 and L > 0.1 else 1):
                run.case(("projector", D, N, rep))
                u = zoo.nyquist_free(ex, jnp, zoo.white_noise(rng, D, D, N, amp=1.0)) + rng.uniform(-1, 1, (D,) + (1,) * D)
                key = {"kind": "projector", "D": D, "N": N}
                scale = (1 + maxabs(u)) * float(N) ** D * (2 * np.pi / L) * N
                pl = np.asarray(ex.ifft(P(ex.fft(jnp.asarray(u))), num_spatial_dims=D, num_points=N))
                pm = np.asarray(ex.spectral.make_incompressible(jnp.asarray(u)))
                if maxabs(pl - pm) > 1e-11 * (1 + maxabs(u)):
                    run.violation(dict(key, what="Leray and make_incompressible disagree"), {"err": maxabs(pl - pm)})
                for nm, p in (("Leray", pl), ("make_incompressible", pm)):
                    if maxabs(divergence_hat(ex, jnp, p, L)) > 1e-11 * scale:
                        run.violation(dict(key, what=f"{nm}: divergence not removed"), {"div": maxabs(divergence_hat(ex, jnp, p, L)) / scale})
                    if maxabs(p.reshape(D, -1).mean(axis=1) - u.reshape(D, -1).mean(axis=1)) > 1e-12 * (1 + maxabs(u)):
                        run.violation(dict(key, what=f"{nm}: mean flow changed"), {})
                pp = np.asarray(ex.spectral.make_incompressible(jnp.asarray(pm)))
                ppl = np.asarray(ex.ifft(P(P(ex.fft(jnp.asarray(u)))), num_spatial_dims=D, num_points=N))
                if maxabs(pp - pm) > 1e-11 * (1 + maxabs(u)) or maxabs(ppl - pl) > 1e-11 * (1 + maxabs(u)):
                    run.violation(dict(key, what="not idempotent / solenoidal field changed"), {"err": max(maxabs(pp - pm), maxabs(ppl - pl))})
    # the projection is linear: P(a u) = a P(u) for amplitudes over twenty decades (nothing in the documented operator knows an absolute scale)
    for D, N in ((2, 8), (2, 9), (3, 6), (3, 7)):
        L = 2 * np.pi
        dop = ex.spectral.build_derivative_operator(D, L, N)
        P = ex.nonlin_fun.Leray(D, N, derivative_operator=dop)
        u = zoo.nyquist_free(ex, jnp, zoo.white_noise(rng, D, D, N, amp=1.0))
        pl = np.asarray(ex.ifft(P(ex.fft(jnp.asarray(u))), num_spatial_dims=D, num_points=N))
        for a in (1e-6, 1e-9, 1e-13, 1e7):
            run.case(("projector-homogeneity", D, N, a))
            key = {"kind": "projector", "D": D, "N": N, "amplitude": a}
            pla = np.asarray(ex.ifft(P(ex.fft(jnp.asarray(a * u))), num_spatial_dims=D, num_points=N))
            pma = np.asarray(ex.spectral.make_incompressible(jnp.asarray(a * u)))
            for nm, p in (("Leray", pla), ("make_incompressible", pma)):
                if maxabs(p - a * pl) > 1e-11 * a * (1 + maxabs(u)):
                    run.violation(dict(key, what=f"{nm}: P(a u) != a P(u)"), {"rel_err": maxabs(p - a * pl) / a})
                if maxabs(divergence_hat(ex, jnp, p, L)) > 1e-11 * a * (1 + maxabs(u)) * float(N) ** D * N:
                    run.violation(dict(key, what=f"{nm}: divergence not removed"), {})
    # indexing="xy": make_incompressible agrees with the Leray projector built from the xy derivative operator and removes the divergence
    # measured with that operator (component d of the field belongs to coordinate d of make_grid(indexing="xy"))
    for D, N in ((2, 8), (2, 9), (3, 6), (3, 7)):
        L = 2.3
        dop = ex.spectral.build_derivative_operator(D, L, N, indexing="xy")
        P = ex.nonlin_fun.Leray(D, N, derivative_operator=dop)
        u = zoo.nyquist_free(ex, jnp, zoo.white_noise(rng, D, D, N, amp=1.0))
        run.case(("projector-xy", D, N))
        pm = np.asarray(ex.spectral.make_incompressible(jnp.asarray(u), indexing="xy"))
        pl = np.asarray(ex.ifft(P(ex.fft(jnp.asarray(u))), num_spatial_dims=D, num_points=N))
        div = np.sum(np.asarray(dop) * np.asarray(ex.fft(jnp.asarray(pm))), axis=0)
        key = {"kind": "projector", "D": D, "N": N, "indexing": "xy"}
        if maxabs(pm - pl) > 1e-11 * (1 + maxabs(u)):
            run.violation(dict(key, what="make_incompressible(indexing=xy) disagrees with Leray on the xy operator"), {"err": maxabs(pm - pl)})
        if maxabs(div) > 1e-10 * (1 + maxabs(u)) * float(N) ** D * (2 * np.pi / L) * N:
            run.violation(dict(key, what="make_incompressible(indexing=xy): divergence not removed"), {})
    # the 3D rotational term is divergence-free for every input (dense white noise, Nyquist content included)
    for N in (6, 7, 8):
        L = 2.9
        dop = ex.spectral.build_derivative_operator(3, L, N)
        f = ex.nonlin_fun.ProjectedConvection3d(3, N, derivative_operator=dop)
        u = zoo.white_noise(rng, 3, 3, N, amp=1.0)
        out = np.asarray(f(ex.fft(jnp.asarray(u))))
        run.case(("rot3d-div", N))
        div = np.sum(np.asarray(dop) * out, axis=0)
        if maxabs(div) > 1e-10 * (1 + maxabs(out)) * N:
            run.violation({"kind": "rot3d divergence", "N": N}, {"div": maxabs(div)})


def check_rollouts(run, ex, jnp, rng, tier):
    traces, meta = [], []
    for name in ("NavierStokesVelocity", "KolmogorovFlowVelocity"):
        for N in ((6, 7) if tier == "quick" else (6, 7, 8, 9)):
            for order in (1, 2, 3, 4):
                L, dt = 2 * np.pi, 0.02
                kw = dict(injection_mode=1 if N < 8 else 2) if name.startswith("Kolmogorov") else {}
                # (default) / drag and larger viscosity / the legal extreme dealiasing_fraction = 1 (the cutoff N//2 - 1 still removes the Nyquist mode)
                for extra in ({}, dict(drag=-0.2, diffusivity=0.05), dict(dealiasing_fraction=1.0)):
                    if "dealiasing_fraction" in extra and order not in (2, 4):
                        continue
                    st = registry.make(name, 3, N, L=L, dt=dt, order=order, **kw, **extra)
                    u = np.asarray(ex.spectral.make_incompressible(jnp.asarray(zoo.nyquist_free(ex, jnp, zoo.white_noise(rng, 3, 3, N, amp=0.5)))))
                    u = jnp.asarray(u)
                    ev = []
                    worst = 0.0
                    for i in range(1, 6):
                        u = st(u)
                        un = np.asarray(u)
                        d = maxabs(divergence_hat(ex, jnp, un, L))
                        scale = (1 + maxabs(un)) * float(N) ** 3 * N
                        ev.append({"ev": "Step", "i": i, "res": [monitor.ulps(d, scale)]})
                        worst = max(worst, d / scale)
                    traces.append({"events": ev})
                    meta.append({"cls": name, "N": N, "order": order, "kw": str(dict(kw, **extra)), "worst": worst})
    verdicts = monitor.validate(run, traces, 50000, "div")
    for (acc, pref), m in zip(verdicts, meta):
        run.case(("rollout", m["cls"], m["N"], m["order"], m["kw"]))
        if not acc:
            run.violation({"kind": "rollout divergence", "cls": m["cls"], "order": m["order"]}, {"N": m["N"], "kw": m["kw"], "worst": m["worst"], "accepted_prefix": pref})
    run.traces += len(traces)
    run.sample({"divergence_trace": traces[0], "meta": meta[0]})
    monitor.selftest(run, traces, 50000)


def run(tier: str, seed: int) -> int:
    run_ = Run(PID, tier, seed)
    setup_jax(True)
    import jax.numpy as jnp
    import exponax as ex
    rng = np.random.default_rng(seed)
    confs = [("p2", [2006, 2007, 2008, 2009], ["leray"], 0), ("p3", [3005, 3006], ["leray", "rot3d"], 0)]
    if tier != "quick":
        confs += [("p2b", list(range(2004, 2014)), ["leray"], 1), ("p3b", [3007, 3008], ["leray", "rot3d"], 0)]
    for label, dn, terms, extra in confs:
        res = nonlin.run_model(run_, dn, terms, extra, label, invs=["LerayOK", "Rot3dOK", "BandOK"], dump=False)
        tlc.cleanup(res)
    check_projectors(run_, ex, jnp, rng, tier)
    check_rollouts(run_, ex, jnp, rng, tier)
    tlc.cleanup_mine()
    run_.rule = ("TLC: LerayOK (divergence-free, idempotent, identity on solenoidal fields and on the mean) and Rot3dOK on every basis sum; conformance: "
                 "projector cases (D, N, draw), dense rot3d outputs, monitored 5-step rollouts per (class, N, order, parameters) validated by TLC")
    run_.assumptions = ["spectral divergence measured with the library's derivative operator (bound by C05/C04)", "Nyquist-free fields for the projectors, as the property states"]
    # ---- default (float32) session: the same public calls on the same inputs in a float32 child process
    from .. import xsession as _xs
    import numpy as _np
    _rng = _np.random.default_rng(seed + 77)
    _cases = []
    for _D, _N in ((2, 8), (2, 9), (3, 6), (3, 5)):
        _u = _rng.standard_normal((_D,) + (_N,) * _D)
        _cases.append(dict(id=f"make_incompressible/{_D}/{_N}", name="make_incompressible", args=[_u], kw={}))
        _cases.append(dict(id=f"leray/{_D}/{_N}", name="leray", args=[_u], kw=dict(L=2.0)))
    _xs.compare(run_, PID, _cases, os.path.join(tlc.SCRATCH, f"c10xs.{os.getpid()}"))
    # the composed machine (spec/Session.tla): multi-step API sessions generated by TLC -simulate, replayed call by call; this check
    # reports the mismatches of the operations it owns (leray, make_incompressible)
    if True:
        from .. import session
        import jax.numpy as _jnp
        import exponax as _ex
        session.run_for(run_, tier, seed, _ex, _jnp, ['leray', 'incomp'], PID)
        from .. import sessiontrace   # the other direction: driver-chosen sessions executed by the library, every returned state validated by TLC (Trace_Session.tla)
        sessiontrace.run_for(run_, tier, seed, _ex, _jnp, ['leray', 'incomp'], PID)
    return run_.finish()


def replay(path):
    return run("quick", 0)
