"""C11 Dissipative and dispersive linear steppers never amplify any state."""
from __future__ import annotations

import os
import shutil

import numpy as np

from .. import linear, monitor, registry, tlc, zoo
from ..evidence import Run
from ..num import maxabs, setup_jax, wshape

PID = "C11"


def l2(u):
    return float(np.sqrt(np.mean(np.asarray(u) ** 2)))


def states(ex, jnp, rng, C, D, N):
    out = [("white", zoo.white_noise(rng, C, D, N, amp=1.0))]
    if N % 2 == 0:
        # Nyquist-only content: checkerboard along the last axis, and along the first axis (leading-axis Nyquist)
        j = np.indices((N,) * D)
        out.append(("nyquist-last", np.broadcast_to(((-1.0) ** j[-1]) * (1 + 0.3 * np.cos(2 * np.pi * j[0] / N)), (C,) + (N,) * D).copy()))
        out.append(("nyquist-first", np.broadcast_to(((-1.0) ** j[0]) * (1 + 0.5 * np.sin(2 * np.pi * j[-1] / N)), (C,) + (N,) * D).copy()))
    out.append(("nyquist-free", zoo.nyquist_free(ex, jnp, zoo.white_noise(rng, C, D, N, amp=1.0))))
    return out


def non_amplifying_variants(cls, mix, D, rng):
    """parameter draws with non-positive real part of the symbol (nu >= 0 / SPD, zeta >= 0, any velocity / dispersivity)"""
    return linear.draw_variants(cls, mix, D, rng) if cls != "GeneralLinear" else []


def run(tier: str, seed: int) -> int:
    run_ = Run(PID, tier, seed)
    setup_jax(True)
    import jax.numpy as jnp
    import exponax as ex
    rng = np.random.default_rng(seed)
    work = os.path.join(tlc.SCRATCH, f"c11.{os.getpid()}")
    os.makedirs(work, exist_ok=True)
    res = linear.run_model(run_, tier, work, maxt=0)
    tables, _ = linear.load(res)
    tlc.cleanup(res)
    # fine grids and high orders of the difficulty interface: the sign structure of the symbol (MC_Linear.DissipativeOK: even orders with
    # dissipative sign are <= 0 at every mode) must survive the conversion gamma_j -> alpha_j = gamma_j / (N^j 2^(j-1) D) for every N
    for N in (96, 220, 256, 1500, 4096):
        for order, diff in ((2, 1.5), (4, -1.5), (6, 0.5), (8, -0.5)):
            run_.case(("difficulty-fine", N, order))
            st = ex.stepper.generic.DifficultyLinearStepperSimple(1, N, difficulty=diff, order=order)
            m = np.asarray(st.step_fourier(jnp.ones((1, N // 2 + 1), dtype=complex)))[0]
            k = np.arange(N // 2 + 1)
            want = np.exp(-abs(diff) * (2 * np.pi * k) ** order / (float(N) ** order * 2 ** (order - 1)))
            if not np.all(np.isfinite(m)) or float(np.max(np.abs(m))) > 1 + 1e-12 or float(np.max(np.abs(m - want))) > 1e-9:
                run_.violation({"kind": "modulus", "cls": "DifficultyLinearStepperSimple", "D": 1, "what": "fine grid / high order: a dissipative difficulty amplifies or is wrong"},
                               {"N": N, "order": order, "max_modulus": float(np.max(np.abs(m))) if np.all(np.isfinite(m)) else None,
                                "max_err": float(np.max(np.abs(m - want))) if np.all(np.isfinite(m)) else None})
    traces, meta = [], []
    nsamp = 0
    for (cls, mix, D, N), table in sorted(tables.items()):
        if cls not in ("Advection", "Diffusion", "AdvectionDiffusion", "Dispersion", "HyperDiffusion"):
            continue
        if N ** D > 3000:
            continue
        for lab, params, (rname, kw) in non_amplifying_variants(cls, mix, D, rng):
            L = float(rng.choice([1.0, 2 * np.pi, 11.0, 600.0, 5.0e4]))          # small and very large boxes: decay rates down to 1e-16 per unit time
            dt = float(rng.choice([1e-3, 0.3, 50.0, 1e6]))
            kwj = {k: (jnp.asarray(v) if isinstance(v, np.ndarray) else v) for k, v in kw.items()}
            st = registry.make(rname, D, N, L=L, dt=dt, **kwj)
            # (i) the multiplier modulus predicted by the specification: |exp(dt*lambda)| <= 1 at every stored index (incl. Nyquist lines)
            lam = linear.symbol_array(D, N, table, params, 2 * np.pi / L)
            mult = np.asarray(st.step_fourier(jnp.ones((1,) + wshape(D, N), dtype=complex)))[0]
            run_.case(("modulus", cls, mix, D, N, lab))
            key = {"kind": "modulus", "cls": cls, "mix": mix, "D": D, "N": N, "variant": lab}
            if np.max(lam.real) > 1e-9 * (1 + np.abs(lam).max()):
                run_.violation(dict(key, what="specification symbol has positive real part for admissible parameters"), {})
            if np.max(np.abs(mult)) > 1 + 1e-12:
                idx = tuple(int(i) for i in np.unravel_index(np.argmax(np.abs(mult)), mult.shape))
                run_.violation(dict(key, what="|multiplier| > 1"), {"index": list(idx), "modulus": float(np.abs(mult).max()), "L": L, "dt": dt})
            if cls in ("Advection", "Dispersion") and maxabs(np.abs(mult) - 1) > 1e-12:
                run_.violation(dict(key, what="|multiplier| != 1 for a non-dissipative class"), {"dev": maxabs(np.abs(mult) - 1)})
            # the modulus is exp(dt Re lambda) - whatever the size of the rates (tiny rates times a huge dt still damp)
            zre = dt * lam.real
            okf = zre > -700
            if np.any(np.abs(np.abs(mult[okf]) - np.exp(zre[okf])) > 1e-12 * (1 + np.abs(zre[okf]))):
                run_.violation(dict(key, what="|multiplier| != exp(dt Re lambda)"), {"L": L, "dt": dt, "dev": float(np.max(np.abs(np.abs(mult[okf]) - np.exp(zre[okf]))))})
            if cls in ("Diffusion", "HyperDiffusion") and dt >= 1e-3:
                nz = np.ones(wshape(D, N), bool)
                nz[(0,) * D] = False
                nz &= (-zre > 1e-10)                 # modes whose damping is representable next to 1.0
                if np.any(np.abs(mult[nz]) >= 1.0):
                    run_.violation(dict(key, what="a non-constant mode is not damped"), {"L": L, "dt": dt})
            # (ii) arbitrary real states: ||out|| <= ||in||, equality where the specification says so
            for sname, u in states(ex, jnp, rng, 1, D, N):
                run_.case(("norm", cls, mix, D, N, lab, sname))
                out = np.asarray(st(jnp.asarray(u)))
                r = l2(out) / l2(u)
                k2 = dict(key, kind="norm", state=sname)
                if not r <= 1 + 1e-12:
                    run_.violation(dict(k2, what="norm amplified"), {"ratio": r, "L": L, "dt": dt})
                if cls in ("Advection", "Dispersion") and (N % 2 == 1 or sname == "nyquist-free") and abs(r - 1) > 1e-11:
                    run_.violation(dict(k2, what="norm not preserved by a non-dissipative stepper"), {"ratio": r, "L": L, "dt": dt})
                if nsamp < 3:
                    run_.sample({"cls": cls, "D": D, "N": N, "variant": lab, "state": sname, "L": L, "dt": dt, "norm_ratio": r})
                    nsamp += 1
            # (iii) monitored rollouts
            if dt <= 50:
                u = jnp.asarray(zoo.white_noise(rng, 1, D, N, amp=1.0))
                ev = []
                n0 = l2(u)
                for i in range(1, (40 if tier == "quick" else 400) + 1):
                    u = st(u)
                    n1 = l2(u)
                    ev.append({"ev": "Step", "i": i, "res": [monitor.ulps(max(0.0, n1 / n0 - 1), 1.0)]})
                    n0 = n1 if n1 > 0 else n0
                traces.append({"events": ev})
                meta.append({"cls": cls, "mix": mix, "D": D, "N": N, "variant": lab})
    # generic linear family: odd-order (dispersive) coefficient lists preserve every mode's modulus, dissipative even orders never
    # amplify - also on fine grids and for dt up to 1e6 (specification: ParityOK)
    G = ex.stepper.generic
    for D, N in ((1, 64), (1, 255), (1, 256), (2, 32), (2, 33), (3, 8)):
        for coefs, kind in (((0.0, -1.3), "odd"), ((0.0, 0.0, 0.0, -1.0), "odd"), ((0.0, 0.7, 0.0, 0.4, 0.0, -0.01), "odd"),
                            ((0.0, 0.0, 0.02), "even"), ((-0.5, 0.3, 0.01, -0.2, -0.001), "mixed")):
            for dt in (1e-3, 1.0, 1e6):
                L = 1.0
                run_.case(("generic-modulus", D, N, coefs, dt))
                ones = jnp.ones((1,) + wshape(D, N), dtype=complex)
                steppers = [("GeneralLinearStepper", G.GeneralLinearStepper(D, L, N, dt, linear_coefficients=coefs)),
                            ("NormalizedLinearStepper", G.NormalizedLinearStepper(D, N, normalized_linear_coefficients=tuple(c * dt / L ** j for j, c in enumerate(coefs)))),
                            ("DifficultyLinearStepper", G.DifficultyLinearStepper(D, N, linear_difficulties=tuple(
                                (c * dt if j == 0 else c * dt * N ** j * 2 ** (j - 1) * D) for j, c in enumerate(coefs))))]
                for nm, st in steppers:
                    mod = np.abs(np.asarray(st.step_fourier(ones))[0])
                    key = {"kind": "generic-modulus", "cls": nm, "D": D, "N": N, "coefs": kind}
                    if np.max(mod) > 1 + 1e-9:
                        run_.violation(dict(key, what="|multiplier| > 1"), {"max": float(np.max(mod)), "dt": dt, "coefs": list(coefs)})
                    if kind == "odd" and maxabs(mod - 1) > 1e-9:
                        run_.violation(dict(key, what="|multiplier| != 1 for odd-order coefficients"), {"dev": maxabs(mod - 1), "dt": dt, "coefs": list(coefs)})
    # wave energy on Nyquist-free states
    for D in (1, 2, 3):
        for N in zoo.grid_sizes(D, tier):
            # domain extents over fourteen decades (the rotation is orthogonal in the energy coordinates whatever |k| is), long steps, and
            # states that carry height only (all the energy in the c^2 |grad h|^2 part)
            for ci, (c, L, dt) in enumerate(((1.0, 2.7, float(rng.choice([0.01, 0.4, 30.0]))), (0.5, 2.7, 0.4), (2.3, 2.7, 30.0),
                                             (1.0, 1.0e7, 3.0e5), (0.7, 1.0e8, 1.0e7), (1.3, 3.0e-5, 1.0e-6), (1.0, 4.0e3, 50.0))):
                st = ex.stepper.Wave(D, L, N, dt, speed_of_sound=c)
                u = zoo.nyquist_free(ex, jnp, zoo.white_noise(rng, 2, D, N, amp=1.0))
                u = np.array(u)
                if ci % 2 == 1:
                    u[1] = 0.0
                kk = np.asarray(ex.spectral.build_wavenumbers(D, N))
                kap2 = (2 * np.pi / L) ** 2 * np.sum(kk ** 2, axis=0)
                wts = np.where((np.indices(wshape(D, N))[-1] == 0) | ((N % 2 == 0) & (np.indices(wshape(D, N))[-1] == N // 2)), 1.0, 2.0)

                def energy(x):
                    xh = np.asarray(ex.fft(jnp.asarray(x)))
                    return float(np.sum(wts * (np.abs(xh[1]) ** 2 + c ** 2 * kap2 * np.abs(xh[0]) ** 2)))
                run_.case(("wave-energy", D, N, c, L))
                e0 = energy(u)
                e1 = energy(np.asarray(st(jnp.asarray(u))))
                if abs(e1 / e0 - 1) > 1e-10:
                    run_.violation({"kind": "wave-energy", "D": D, "N": N}, {"c": c, "dt": dt, "L": L, "height_only": ci % 2 == 1, "ratio": e1 / e0})
    verdicts = monitor.validate(run_, traces, 100, "norm")
    for (acc, pref), m in zip(verdicts, meta):
        run_.case(("rollout", m["cls"], m["mix"], m["D"], m["N"], m["variant"]))
        if not acc:
            run_.violation({"kind": "rollout-norm", "cls": m["cls"], "D": m["D"]}, dict(m, accepted_prefix=pref))
    run_.traces += len(traces)
    monitor.selftest(run_, traces, 100)
    run_.rule = ("modulus cases per (class, flag, D, N, coefficient variant) at every stored index; norm cases per additional state kind (white noise, "
                 "Nyquist-only on the last / a leading axis, Nyquist-free); monitored rollouts validated by TLC (norm ratio excess <= 100 ulps per step)")
    run_.assumptions = ["numpy norms", "tolerance 1e-12 on moduli and norm ratios"]
    shutil.rmtree(work, ignore_errors=True)
    return run_.finish()


def replay(path):
    return run("quick", 0)
