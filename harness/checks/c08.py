"""C08 Steppers commute with the symmetries of the periodic box."""
from __future__ import annotations

import itertools
import shutil

import numpy as np

from .. import nonlin, registry, tlc, zoo
from ..evidence import Run
from ..num import maxabs, setup_jax

PID = "C08"
INVS = ["ShiftOK", "PermOK", "VortSwapOK", "EmbedOK"]


def rel(a, b):
    return maxabs(np.asarray(a) - np.asarray(b)) / (1 + maxabs(b))


def check_translations(run, ex, jnp, rng, tier):
    for c in zoo.cases(tier, orders=(1, 2, 3, 4) if tier != "quick" else (2, 4)):
        name, D, N = c["name"], c["D"], c["N"]
        st = zoo.build(c)
        C = st.num_channels
        u = zoo.white_noise(rng, C, D, N)
        axes_ok = list(range(D))
        if name in zoo.KOLMOGOROV or (name == "GeneralVorticityConvectionStepper" and c["kw"].get("injection_scale", 0.0) != 0.0):
            axes_ok = [a for a in range(D) if a != 1]        # the forcing depends on x_1 only
        shifts = []
        for a in axes_ok:
            shifts += [tuple(1 if d == a else 0 for d in range(D)), tuple((N - 2) if d == a else 0 for d in range(D))]
        shifts.append(tuple(int(rng.integers(0, N)) if d in axes_ok else 0 for d in range(D)))
        base = np.asarray(st(jnp.asarray(u)))
        if not np.all(np.isfinite(base)):
            run.extra.setdefault("uncovered", []).append(f"{name} D={D} N={N} {c['kw']}: non-finite step in the zoo configuration")
            continue
        for s in shifts:
            run.case(("shift", name, D, N, str(c["kw"]), c["order"], s))
            ax = tuple(range(1, D + 1))
            got = np.asarray(st(jnp.asarray(np.roll(u, s, axis=ax))))
            want = np.roll(base, s, axis=ax)
            if rel(got, want) > 1e-10:
                run.violation({"kind": "translation", "cls": name, "D": D, "N": N, "order": c["order"], "kw": str(c["kw"])},
                              {"shift": list(s), "err": rel(got, want)})
    run.sample({"translation": "stepper(roll(u, s)) == roll(stepper(u), s) on white-noise states, all classes"})


def permute_state(u, perm, vector):
    """perm: tuple over axes 0..D-1 ; result v with v(x_0..x_{D-1}) = u(x_perm...) ; channels permuted along for vector fields"""
    D = u.ndim - 1
    v = np.transpose(u, (0,) + tuple(1 + p for p in perm))
    if vector:
        v = v[list(perm)]
    return v


def check_permutations(run, ex, jnp, rng, tier):
    for c in zoo.cases(tier, orders=(2, 4) if tier == "quick" else (1, 2, 3, 4), dims=(2, 3)):
        if tier == "quick" and c["order"] == 4 and c["name"] not in zoo.ODD_ORDER_LINEAR:
            continue          # quick tier: order 4 only where the linear symbol is complex (its coefficients carry an imaginary part)
        name, D, N = c["name"], c["D"], c["N"]
        if name in zoo.KOLMOGOROV or c["kw"].get("injection_scale", 0.0) != 0.0:
            continue
        st = zoo.build(c)
        C = st.num_channels
        vector = (name in zoo.VECTOR and not c["kw"].get("single_channel", False)) or name == "NavierStokesVelocity"
        u = zoo.white_noise(rng, C, D, N)
        if name in zoo.ODD_ORDER_LINEAR or registry.has_order(registry.stepper_classes()[name]):
            u = zoo.nyquist_free(ex, jnp, u)       # odd-order symbols / first-derivative terms: the property's Nyquist caveat
        states = [u]
        if name not in zoo.ODD_ORDER_LINEAR:
            # even-order linear part: the multiplier is real on the Nyquist lines and the nonlinear terms never see the Nyquist mode (it is
            # removed by the dealiasing before any derivative is taken), so the permutation symmetry holds for arbitrary states
            states.append(zoo.white_noise(rng, C, D, N))
        for u in states:
          base = np.asarray(st(jnp.asarray(u)))
          if not np.all(np.isfinite(base)):
            continue
          sign = -1.0 if name in zoo.PSEUDOSCALAR else 1.0
          for perm in itertools.permutations(range(D)):
              if perm == tuple(range(D)):
                  continue
              par = 1.0
              if name in zoo.PSEUDOSCALAR:
                  par = -1.0            # D = 2: the only non-trivial permutation is the swap (odd)
              run.case(("perm", name, D, N, str(c["kw"]), c["order"], perm))
              got = np.asarray(st(jnp.asarray(par * permute_state(u, perm, vector))))
              want = par * permute_state(base, perm, vector)
              if rel(got, want) > 1e-10:
                  run.violation({"kind": "permutation", "cls": name, "D": D, "N": N, "order": c["order"], "kw": str(c["kw"])},
                                {"perm": list(perm), "err": rel(got, want)})
        del sign


def check_embedding(run, ex, jnp, rng, tier):
    cls = registry.stepper_classes()
    for c in zoo.cases(tier, orders=(2, 4) if tier == "quick" else (1, 2, 4), dims=(2, 3)):
        if tier == "quick" and c["order"] == 4 and c["name"] not in zoo.ODD_ORDER_LINEAR:
            continue
        name, D, N = c["name"], c["D"], c["N"]
        if 1 not in registry.dims_of(name) or name.startswith("Difficulty"):
            continue
        kw1 = dict(c["kw"])
        kwD = dict(c["kw"])
        # the zeroth-order generic coefficient enters as D * a_0 (specification: MeanOK): compensate in the 1D partner
        for key in ("linear_coefficients", "normalized_linear_coefficients"):
            defaults = registry.ctor_defaults(cls[name])
            if key in defaults:
                co = list(kwD.get(key, defaults[key]))
                kwD[key] = tuple(co)
                kw1[key] = tuple([co[0] * D] + co[1:])
        stD = registry.make(name, D, N, L=2 * np.pi, dt=0.01, order=c["order"], **kwD)
        st1 = registry.make(name, 1, N, L=2 * np.pi, dt=0.01, order=c["order"], **{k: v for k, v in kw1.items()
                                                                                   if k not in ("advect_on_diffusion", "diffuse_on_diffuse", "advect_over_diffuse", "diffuse_over_diffuse")})
        vector = name in zoo.VECTOR and not c["kw"].get("single_channel", False)
        C1 = st1.num_channels
        u1 = zoo.white_noise(rng, C1, 1, N)
        if N % 2 == 0:
            u1 = zoo.nyquist_free(ex, jnp, u1)
        base = np.asarray(st1(jnp.asarray(u1)))
        if not np.all(np.isfinite(base)):
            continue
        for a in range(D):
            run.case(("embed", name, D, N, str(c["kw"]), c["order"], a))
            shape = [1] * D
            shape[a] = N
            if vector:
                uD = np.zeros((D,) + (N,) * D)
                uD[a] = np.broadcast_to(u1[0].reshape(shape), (N,) * D)
            else:
                uD = np.stack([np.broadcast_to(u1[ch].reshape(shape), (N,) * D) for ch in range(C1)])
            got = np.asarray(stD(jnp.asarray(uD)))
            if vector:
                want = np.zeros_like(uD)
                want[a] = np.broadcast_to(base[0].reshape(shape), (N,) * D)
            else:
                want = np.stack([np.broadcast_to(base[ch].reshape(shape), (N,) * D) for ch in range(C1)])
            if rel(got, want) > 1e-10:
                run.violation({"kind": "embedding", "cls": name, "D": D, "N": N, "order": c["order"], "kw": str(c["kw"])},
                              {"axis": a, "err": rel(got, want)})


def run(tier: str, seed: int) -> int:
    run_ = Run(PID, tier, seed)
    setup_jax(True)
    import jax.numpy as jnp
    import exponax as ex
    # a session that has used the public indexing="xy" option for the very grids the steppers are built on afterwards: nothing may be
    # shared between the two conventions (construction is pure)
    for _D in (2, 3):
        for _N in zoo.grid_sizes(_D, tier):
            ex.spectral.build_derivative_operator(_D, 2 * np.pi, _N, indexing="xy")
            ex.spectral.build_wavenumbers(_D, _N, indexing="xy")
            ex.spectral.build_scaling_array(_D, _N, mode="reconstruction", indexing="xy")
    rng = np.random.default_rng(seed)
    terms = [t for t in nonlin.ALL_TERMS]
    confs = [("s12", [1008, 1009, 2006, 2007], [t for t in terms if t not in ("rot3d", "poly3", "cahn_hilliard", "gray_scott")]),
             ("s3", [3006], ["conv_mc_cons", "conv_mc_non", "conv_sc_cons", "gradnorm_fix", "rot3d", "leray"]),
             ("s2c", [2008], ["poly3", "cahn_hilliard", "gray_scott"])]
    if tier != "quick":
        confs += [("s2b", [2008, 2009, 2010], [t for t in terms if t not in ("rot3d", "poly3", "cahn_hilliard", "gray_scott")]),
                  ("s3b", [3007], ["conv_mc_cons", "conv_mc_non", "conv_sc_cons", "conv_sc_non", "gradnorm_fix", "poly2", "rot3d", "leray"])]
    for label, dn, tm in confs:
        res = nonlin.run_model(run_, dn, tm, 0, label, invs=INVS, dump=False)
        tlc.cleanup(res)
    check_translations(run_, ex, jnp, rng, tier)
    check_permutations(run_, ex, jnp, rng, tier)
    check_embedding(run_, ex, jnp, rng, tier)
    tlc.cleanup_mine()
    run_.traces = run_.evaluations
    run_.rule = ("TLC: ShiftOK/PermOK/VortSwapOK/EmbedOK on every terminal-and-applied state of MC_Nonlin; replay: one metamorphic case per "
                 "(class, argument variant, D, N, order, group element): grid shifts (white noise), axis permutations with channel permutation "
                 "(Nyquist-free where the specification requires it), embeddings along every axis")
    run_.assumptions = ["np.roll / np.transpose / broadcasting as the group actions", "tolerance 1e-10 relative (code-vs-code)",
                        "the nonlinear terms of the steppers are the ones bound to MC_Nonlin by C03"]
    return run_.finish()


def replay(path):
    return run("quick", 0)
