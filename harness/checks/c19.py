"""C19 Steps stay finite and precision-faithful across stiffness and dtype.

MC_Dtype (TLC): the dtype pipeline of one step (session flag x requested input dtype x order 0-4) with default/never-narrower/
Fourier/range invariants, and the exact image of the zero state under every documented nonlinear term (which equations are
unforced).  MC_ETDRK supplies the tableau.  Two child processes (default session, x64 session) run the same
specification-enumerated configurations: every public class x order (dtypes at fft / step_fourier / result, finiteness, zero
state), the stiffness ladder z = 0 .. -1e15 (and the imaginary axis and left half plane) through the public ETDRKp with the
mpmath-evaluated tableau as exact pivot, and stiff instances of real steppers.  Each session must meet its own eps-scaled
bound against the pivot; the single/double agreement of whole steps is checked across the two sessions."""
from __future__ import annotations

import json
import os
import pickle
import shutil
import subprocess
import sys

import numpy as np

from .. import etdrk, registry, tlc
from ..evidence import Run
from ..num import as_map
from ..tlaval import iter_dump_states

PID = "C19"
INVS = ["DefaultOK", "NotNarrowerOK", "FourierOK", "RangeOK", "StagesOK"]
# the documented nonlinear term of every public semi-linear class, as named in MC_Dtype.Terms
TERM_OF = {
    "Burgers": "conv_mc_non", "KortewegDeVries": "conv_mc_non", "KuramotoSivashinsky": "gradnorm_fix", "KuramotoSivashinskyConservative": "conv_mc_cons",
    "NavierStokesVorticity": "vort2d", "NavierStokesVelocity": "rot3d", "AllenCahn": "poly_nofeed", "CahnHilliard": "cahn_hilliard",
    "FisherKPP": "poly_nofeed", "GrayScott": "gray_scott", "SwiftHohenberg": "poly_nofeed",
    "GeneralConvectionStepper": "conv_mc_non", "NormalizedConvectionStepper": "conv_mc_non", "DifficultyConvectionStepper": "conv_mc_non",
    "GeneralGradientNormStepper": "gradnorm_fix", "NormalizedGradientNormStepper": "gradnorm_fix", "DifficultyGradientNormStepper": "gradnorm_fix",
    "GeneralPolynomialStepper": "poly_nofeed", "NormalizedPolynomialStepper": "poly_nofeed", "DifficultyPolynomialStepper": "poly_nofeed",
    "GeneralNonlinearStepper": "general", "NormalizedNonlinearStepper": "general", "DifficultyNonlinearStepper": "general",
    "GeneralVorticityConvectionStepper": "vort2d",
}
FORCED = {"KolmogorovFlowVorticity", "KolmogorovFlowVelocity"}          # documented external forcing: zero maps to the forced state (C12)
K32 = 1500.0          # allowed multiple of eps * condition for the float32 session against the exact pivot
K64 = 5000.0       # measured worst multiple on the unchanged tree: ~45 in both sessions


def ladder(tier, rng):
    zs = [0.0] + [-(10.0 ** e) for e in range(-8, 16)] + [-0.5, -3.0, -30.0, -700.0, -1e4 / 3]
    zs += [s * 1j * 10.0 ** e for e in range(-3, 5) for s in (1, -1)]
    # between the decades near the origin (where an implementation may switch between formulas for the coefficient functions)
    zs += [-m * 10.0 ** e for e in range(-4, 1) for m in (2.0, 5.0, 9.0)] + [1j * m * 10.0 ** e for e in range(-4, 0) for m in (-3.0, 7.0)]
    n = 40 if tier == "quick" else 300
    r = 10 ** rng.uniform(-4, 15, n)
    th = rng.uniform(np.pi / 2, 3 * np.pi / 2, n)
    zs += list(r * np.exp(1j * th))
    return [complex(z) for z in zs]


def stiff_cases(tier):
    cs = []
    k = 0
    for order in (1, 2, 3, 4):
        for name, D, N, L, dt, kw in (
            ("KuramotoSivashinsky", 1, 256, 1.0, 1.0, {}),
            ("KuramotoSivashinsky", 2, 48, 1.0, 5.0, {}),
            ("Burgers", 1, 512, 1.0, 50.0, dict(diffusivity=1.0)),
            ("KortewegDeVries", 1, 256, 1.0, 2.0, dict(hyper_diffusivity=0.5)),
            ("CahnHilliard", 2, 64, 1.0, 1.0, {}),
            ("SwiftHohenberg", 2, 64, 1.0, 10.0, {}),
            ("NavierStokesVorticity", 2, 64, 1.0, 10.0, dict(diffusivity=1.0)),
            ("GeneralGradientNormStepper", 1, 256, 0.5, 10.0, dict(linear_coefficients=(0.0, 0.0, 1.0, 0.0, -1.0, 0.0, 0.01))),
            ("GrayScott", 2, 64, 1.0, 1.0, dict(diffusivity_1=1.0, diffusivity_2=0.5)),
            ("NavierStokesVelocity", 3, 16, 1.0, 100.0, dict(diffusivity=1.0)),
            # difficulty interface on fine grids with high-order dissipation: the conversion factors N^j 2^(j-1) D reach 2^64 and beyond
            ("DifficultyConvectionStepper", 1, 300, 1.0, 1.0, dict(linear_difficulties=(0.0, 0.0, 0.0, 0.0, -1.0, 0.0, 0.0, 0.0, -0.5))),
            ("DifficultyGradientNormStepper", 1, 2048, 1.0, 1.0, dict(linear_difficulties=(0.0, 0.0, 0.0, 0.0, -1.0, 0.0, 0.5))),
        ):
            if tier == "quick" and order in (1, 3) and D > 1:
                continue
            k += 1
            cs.append(dict(id=f"{name}-{D}d-N{N}-o{order}", name=name, D=D, N=N, L=L, dt=dt, order=order, kw=kw, seed=k))
    for name, D, N, L, dt, kw in (("Diffusion", 1, 512, 1.0, 10.0, dict(diffusivity=1.0)), ("HyperDiffusion", 1, 512, 1.0, 10.0, {}),
                                  ("HyperDiffusion", 2, 64, 0.5, 1e3, {}), ("Diffusion", 3, 16, 0.1, 1e6, {}),
                                  ("DifficultyLinearStepper", 1, 256, 1.0, 1.0, dict(linear_difficulties=(0.0, 0.0, 0.0, 0.0, -2.0, 0.0, 0.0, 0.0, -1.0))),
                                  ("DifficultyLinearStepper", 1, 4096, 1.0, 1.0, dict(linear_difficulties=(0.0, 0.0, 0.0, 0.0, 0.0, 0.0, 0.5))),
                                  ("DifficultyLinearStepper", 2, 236, 1.0, 1.0, dict(linear_difficulties=(0.0, 0.0, 0.1, 0.0, 0.0, 0.0, 0.0, 0.0, -1.0)))):
        k += 1
        cs.append(dict(id=f"{name}-{D}d-N{N}", name=name, D=D, N=N, L=L, dt=dt, order=None, kw=kw, seed=k))
    return cs


def run(tier: str, seed: int) -> int:
    run_ = Run(PID, tier, seed, level="model_checking")
    rng = np.random.default_rng(seed)
    work = os.path.join(tlc.SCRATCH, f"c19.{os.getpid()}")
    os.makedirs(work, exist_ok=True)
    cfg = os.path.join(work, "MC_Dtype.cfg")
    tlc.write_cfg(cfg, spec="Spec", constants={"Orders": "{0,1,2,3,4}"}, invariants=INVS)
    res = tlc.run_tlc("MC_Dtype", cfg, workers=4, dump=True, timeout=900, coverage=True)
    run_.add_tlc(res, "MC_Dtype")
    if not res.ok:
        run_.violation({"kind": "spec", "invariant": res.violated}, {"trace": res.trace_text})
    for act in ("Canonicalise", "Fft", "ExpMul", "NonlinIfft", "NonlinFft", "CoefMul", "Combine", "Ifft"):
        if res.coverage.get(act, (0, 0))[0] == 0:
            raise RuntimeError(f"vacuous model: action {act} never taken")
    zero_table = tlc.extract_printed(res.out, "zero_table")[0]
    spec_dt = {}
    for st in iter_dump_states(res.dump):
        k = (st["x64"], st["req"], st["order"])
        if st["pc"] == "done":
            spec_dt.setdefault(k, {})["result"] = st["cur"]
        if st["pc"] == "fourier":
            spec_dt.setdefault(k, {})["step_fourier"] = st["cur"]
        if st["pc"] in ("expmul", "stage") and st["stage"] == 1 and st["hat"] != "none":
            spec_dt.setdefault(k, {})["fft"] = st["hat"]
        if st["pc"] == "physical":
            spec_dt.setdefault(k, {})["input"] = st["cur"]
    tlc.cleanup(res)
    tab = etdrk.run_model(run_)
    NP = {"f32": "float32", "f64": "float64", "c64": "complex64", "c128": "complex128"}

    classes = registry.stepper_classes()
    class_cases = []
    shapes = {1: 16, 2: 8, 3: 6}
    for name in sorted(classes):
        D = registry.dims_of(name)[0]
        orders = (0, 1, 2, 3, 4) if registry.has_order(classes[name]) else (None,)
        if tier == "quick" and len(orders) > 1:
            orders = (0, 2, 4) if (hash(name) % 2 == 0) else (1, 3)
            orders = {0: (0, 2, 4), 1: (1, 3, 4)}[len(name) % 2]
        for o in orders:
            class_cases.append(dict(id=f"{name}/{o}", name=name, D=D, N=shapes[D], order=o, seed=len(class_cases) + 1))
    zs = ladder(tier, rng)
    job = dict(class_cases=class_cases, tableau=tab, ladder=zs, ladder_dts=[1.0, 0.01, 37.0], stiff_cases=stiff_cases(tier))
    jobf = os.path.join(work, "job.pkl")
    pickle.dump(job, open(jobf, "wb"))
    outs = {}
    procs = []
    for x64 in (False, True):
        env = dict(os.environ, VERIF_C19_JOB=jobf, VERIF_C19_X64="1" if x64 else "0", VERIF_C19_OUT=os.path.join(work, f"res_{int(x64)}"))
        env.pop("JAX_ENABLE_X64", None)
        procs.append((x64, subprocess.Popen([sys.executable, "-m", "harness.checks.c19_child"], env=env, stdout=subprocess.PIPE, stderr=subprocess.STDOUT, text=True)))
    for x64, pr in procs:
        so, _ = pr.communicate(timeout=3000)
        if pr.returncode != 0:
            raise RuntimeError(f"child x64={x64} failed:\n{so[-3000:]}")
        outs[x64] = (json.load(open(os.path.join(work, f"res_{int(x64)}.json"))), np.load(os.path.join(work, f"res_{int(x64)}.npz")))

    for x64 in (False, True):
        o, _ = outs[x64]
        sess = "x64" if x64 else "default"
        want_default = "float64" if x64 else "float32"
        if o["default_float"] != want_default:
            raise RuntimeError(f"session {sess} has default float {o['default_float']}")
        for e in o["errors"]:
            run_.violation({"kind": "raised", "session": sess, "what": e["id"], "mode": e["stage"]}, e)
        # 1. dtypes per (session, request, order) against the specification's pipeline; finiteness; zero state
        for rec in o["dtype_cases"]:
            order = rec["order"] if rec["order"] is not None else 0
            for req, got in rec["by_request"].items():
                sp = spec_dt[(x64, req, order)]
                run_.case((sess, rec["id"], req))
                for fld in ("input", "fft", "step_fourier", "result"):
                    if got[fld] != NP[sp[fld]]:
                        run_.violation({"kind": "dtype", "session": sess, "cls": rec["name"], "order": rec["order"], "what": fld, "mode": req},
                                       {"got": got[fld], "spec": NP[sp[fld]]})
                if not got["finite"] or not got["shape_ok"]:
                    run_.violation({"kind": "finite", "session": sess, "cls": rec["name"], "order": rec["order"], "mode": req}, got)
            # no intermediate of the traced step leaves the session's precision (MC_Dtype.RangeOK, observed on every equation of the jaxpr)
            inter = rec.get("intermediate_dtypes")
            if inter is not None:
                forbidden = {"float32", "complex64", "float16", "bfloat16"} if x64 else {"float64", "complex128"}
                if forbidden & set(inter):
                    run_.violation({"kind": "intermediate-dtype", "session": sess, "cls": rec["name"], "order": rec["order"]}, {"dtypes": inter})
            leaves = set(rec.get("leaf_dtypes") or [])
            bad_leaves = leaves & ({"float32", "complex64"} if x64 else {"float64", "complex128"})
            if bad_leaves:
                run_.violation({"kind": "operator-dtype", "session": sess, "cls": rec["name"], "order": rec["order"],
                                "what": "arrays carried by the stepper are not of the session's precision"}, {"leaf_dtypes": sorted(leaves)})
            if "semigroup_rel" in rec:
                run_.evaluations += 1
                if not rec["semigroup_rel"] <= 2000 * o["eps"]:
                    run_.violation({"kind": "precision-faithfulness", "session": sess, "cls": rec["name"], "order": rec["order"],
                                    "what": "two half steps != one step at the session's precision"}, {"rel": rec["semigroup_rel"], "bound": 2000 * o["eps"]})
            z = rec["zero"]
            term = TERM_OF.get(rec["name"])
            unforced = rec["name"] in registry.LINEAR or (term is not None and all(as_map(zero_table[term]).values()))
            if rec["name"] in FORCED:
                unforced = False
            if not z["finite"] or z["dtype"] != want_default:
                run_.violation({"kind": "zero-state", "session": sess, "cls": rec["name"], "order": rec["order"], "what": "finite/dtype"}, z)
            if unforced and z["maxabs"] != 0.0:
                run_.violation({"kind": "zero-state", "session": sess, "cls": rec["name"], "order": rec["order"], "what": "zero must map to zero"}, z)
            if term is None and rec["name"] not in registry.LINEAR and rec["name"] not in FORCED:
                run_.extra.setdefault("uncovered_classes", []).append(rec["name"])
        # 2. the ladder: finite coefficients / stage inputs / results, correct dtype, eps-scaled distance to the exact pivot
        K = K64 if x64 else K32
        cdt = "complex128" if x64 else "complex64"
        for lad in o["ladder"]:
            key = {"kind": "ladder", "session": sess, "order": lad["order"]}
            if not (lad["coef_finite"] and lad["result_finite"] and lad["stage_inputs_finite"]):
                run_.violation(dict(key, what="non-finite"), {k: lad[k] for k in ("coef_finite", "result_finite", "stage_inputs_finite", "dt")})
            if lad["result_dtype"] != cdt or any(d != cdt for d in lad["coef_dtypes"]):
                run_.violation(dict(key, what="dtype"), {"result": lad["result_dtype"], "coefficients": lad["coef_dtypes"]})
            rel, cond = np.asarray(lad["rel"]), np.asarray(lad["cond"])
            wm = run_.extra.setdefault("ladder_worst_multiple_of_eps_cond", {})
            wm[sess] = max(wm.get(sess, 0.0), float(np.max(rel / (o["eps"] * cond))))
            bad = ~(rel <= K * o["eps"] * cond)
            for i in np.argwhere(bad)[:, 0][:5]:
                z = zs[int(i)]
                region = "zero" if z == 0 else ("real" if z.imag == 0 else ("imag" if z.real == 0 else "complex"))
                run_.violation(dict(key, what="precision", region=region), {"z": [z.real, z.imag], "dt": lad["dt"], "rel": float(rel[i]),
                                                                              "bound": float(K * o["eps"] * cond[i])})
            run_.evaluations += len(rel)
        for s in o["stiff"]:
            key = {"kind": "stiff", "session": sess, "what": s["id"]}
            run_.case((sess, "stiff", s["id"]))
            if not (s["finite"] and s["zero_finite"] and s["coef_finite"]) or s["result_dtype"] != want_default:
                run_.violation(key, s)
    # 2b. one process, precision mode switched between two constructions on the same grids (both orders): what a stepper carries follows
    #     the mode that is active when it is built
    for first in (False, True):
        outp = os.path.join(work, f"switch_{int(first)}.json")
        env = dict(os.environ, VERIF_C19_FIRST="1" if first else "0", VERIF_C19_OUT=outp)
        env.pop("JAX_ENABLE_X64", None)
        pr = subprocess.run([sys.executable, "-m", "harness.checks.c19_switch"], env=env, capture_output=True, text=True, timeout=1800)
        if pr.returncode != 0:
            raise RuntimeError("mode-switch child failed:\n" + pr.stdout[-1500:] + pr.stderr[-1500:])
        sw = json.load(open(outp))
        for ph in sw["phases"]:
            x64 = ph["x64"]
            eps = 2.220446049250313e-16 if x64 else 1.1920929e-07
            for rec in ph["cases"]:
                run_.case(("switch", first, x64, rec["name"]))
                key = {"kind": "mode-switch", "cls": rec["name"], "order": rec["order"], "session": ("x64" if x64 else "default") + (" (built second)" if x64 != first else " (built first)")}
                if "error" in rec:
                    run_.violation(dict(key, what="raised"), rec)
                    continue
                bad = set(rec["leaf_dtypes"]) & ({"float32", "complex64"} if x64 else {"float64", "complex128"})
                if rec["result_dtype"] != ("float64" if x64 else "float32") or not rec["finite"] or bad:
                    run_.violation(dict(key, what="dtype of the result / of the arrays carried by the stepper"), rec)
                if "semigroup_rel" in rec and not rec["semigroup_rel"] <= 2000 * eps:
                    run_.violation(dict(key, what="two half steps != one step at the active precision"), rec)
    # 3. single vs double: the same step in the two sessions
    a32, a64 = outs[False][1], outs[True][1]
    worst = {}
    for k in a64.files:
        if k not in a32.files:
            continue
        x, y = a32[k], a64[k]
        if x.shape != y.shape:
            run_.violation({"kind": "cross-session", "what": k, "mode": "shape"}, {})
            continue
        if k.startswith("ladder/"):
            continue       # each session is compared with the exact pivot above (the stored z differs by rounding between the sessions)
        if k.startswith("pert/"):
            continue
        scale = 1.0 + float(np.max(np.abs(y)))
        err = float(np.max(np.abs(x - y)))
        # sensitivity of this very step to perturbations of single-precision size, measured in the double-precision session
        pk = "pert/" + k.split("/", 1)[1]
        sens = float(np.max(np.abs(a64[pk] - y))) if pk in a64.files else 0.0
        bound = 300 * 1.1920929e-07 * scale * max(1.0, np.log2(x.size)) + 100 * sens
        worst[k] = err / (1.1920929e-07 * scale)
        run_.case(("cross", k))
        if not err <= bound:
            run_.violation({"kind": "cross-session", "what": k}, {"max_abs_diff": err, "bound": bound, "scale": scale})
    run_.extra["cross_session_worst_eps32_multiples"] = {k: round(v, 2) for k, v in sorted(worst.items(), key=lambda kv: -kv[1])[:8]}
    run_.traces = len(class_cases) * 2 + len(job["stiff_cases"]) * 2 + 30
    run_.sample({"ladder_points": len(zs), "examples": [[z.real, z.imag] for z in zs[:6] + zs[20:26]], "stiff": [c["id"] for c in job["stiff_cases"][:4]],
                 "spec_dtype_pipeline_example": {"x64=TRUE, req=f32, order=2": spec_dt[(True, "f32", 2)]}})
    run_.rule = ("cases: (session, class, order, requested dtype) against the dtype pipeline of MC_Dtype; ladder points (session, order, dt, z) against the "
                 "mpmath-evaluated tableau; stiff stepper instances; cross-session pairs")
    run_.assumptions = ["finiteness and rounding magnitude are observed on the specification's ladder, not derived",
                        f"float32 bound {K32} eps (1+|z|); float64 bound {K64} eps (1+|z|) (contour quadrature accuracy, as C02)",
                        "cross-session bound 300 eps32 scale log2(size) + 100 x the measured sensitivity of the step to an eps32-sized input perturbation (stiff instances, smooth O(1) states)"]
    shutil.rmtree(work, ignore_errors=True)
    return run_.finish()


def replay(path):
    return run("quick", 0)
