"""C12 Forcing terms inject exactly the documented field."""
from __future__ import annotations

import os
import shutil

import numpy as np

from .. import registry, tlc, zoo
from ..evidence import Run
from ..num import as_map, cq, maxabs, setup_jax, synth
from ..tlaval import iter_dump_states

PID = "C12"
INVS = ["HermitianOK", "RepresentableOK", "ShiftAxesOK", "NoSelfInteraction", "LaminarOK"]


def growth(sigma, t):
    return t if sigma == 0 else float(np.expm1(sigma * t) / sigma)


def laminar_field(D, N, forcing, wfactor, omega, gamma, g):
    """physical field of the laminar solution: forcing spectrum * gamma * w^wfactor * g(t)"""
    chans = []
    for f in forcing:
        ts = {k: cq(c) * gamma * omega ** wfactor * g for k, c in as_map(f).items()}
        chans.append(synth(D, N, ts).real if ts else np.zeros((N,) * D))
    return np.stack(chans)


def run(tier: str, seed: int) -> int:
    run_ = Run(PID, tier, seed)
    jax = setup_jax(True)
    import jax.numpy as jnp
    import exponax as ex
    rng = np.random.default_rng(seed)
    work = os.path.join(tlc.SCRATCH, f"c12.{os.getpid()}")
    os.makedirs(work, exist_ok=True)
    dn = [2006, 2008, 2009, 2012, 2013, 2016, 2049, 2098, 3006, 3007, 3008, 3009, 3049] if tier == "quick" else \
        [2000 + n for n in list(range(6, 25)) + [49, 98, 103, 196]] + [3000 + n for n in list(range(6, 13)) + [49]]
    cfg = os.path.join(work, "MC_Forcing.cfg")
    tlc.write_cfg(cfg, constants={"DNSet": "{" + ",".join(map(str, dn)) + "}", "MaxMode": 4, "MaxSteps": 6}, invariants=INVS)
    res = tlc.run_tlc("MC_Forcing", cfg, workers=8, dump=True, timeout=1200)
    run_.add_tlc(res, "MC_Forcing")
    if not res.ok:
        run_.violation({"kind": "spec", "invariant": res.violated}, {"trace": res.trace_text})
    sts = [s for s in iter_dump_states(res.dump)]
    tlc.cleanup(res)
    nsamp = 0
    for st in sts:
        kind, D, N, km, nsteps = st["kind"], st["D"], st["N"], st["kmode"], st["n"]
        if nsteps == 0:
            continue
        if tier == "quick" and ((nsteps != (1 if (N + km) % 2 else 5)) or (D == 3 and 7 < N < 49 and km > 1) or (N >= 49 and km != 3)):
            continue
        # thorough tier: every grid / mode / order, but a subset of the step counts, and the large (float-hazard) grids with one step only
        if tier != "quick" and (nsteps not in (1, 5) or (N >= 49 and (nsteps != 1 or km not in (1, 3))) or (D == 3 and N > 9 and N < 49 and nsteps != 1)):
            continue
        wfac = 0 if kind == "velocity3d" else 1
        for L in ((1.0 if (N + km) % 3 else 3.0, 2 * np.pi)[: 1 if N % 2 else 2] if tier == "quick" else (2 * np.pi, 1.0, 3.0, 0.37 * 2 * np.pi)):
            omega = 2 * np.pi / L
            gamma = float(rng.choice([1.0, -0.6, 2.5]))
            nu = float(rng.choice([0.01, 0.2]))
            drag = float(rng.choice([0.0, -0.1, 0.05]))
            dt = float(rng.choice([0.01, 0.3, 1e-6]))     # 1e-6: |sigma dt| ~ 1e-8, where a closed-form (exp(z)-1)/z has lost half its digits
            sigma = drag - nu * (km * omega) ** 2
            g = growth(sigma, nsteps * dt)
            want = laminar_field(D, N, st["forcing"], wfac, omega, gamma, g)
            targets = []
            if kind == "velocity3d":
                targets.append(("KolmogorovFlowVelocity", dict(diffusivity=nu, drag=drag, injection_mode=km, injection_scale=gamma)))
            else:
                targets.append(("KolmogorovFlowVorticity", dict(diffusivity=nu, drag=drag, injection_mode=km, injection_scale=gamma,
                                                                convection_scale=float(rng.choice([1.0, 0.5, -2.0])))))
                targets.append(("GeneralVorticityConvectionStepper", dict(linear_coefficients=(drag / 2, 0.0, nu), injection_mode=km,
                                                                          injection_scale=gamma, vorticity_convection_scale=float(rng.choice([1.0, 1.7])))))
            for name, kw in targets:
                for order in ((1, 2, 3, 4) if tier != "quick" else ((1 + (N + km) % 4,) if N > 9 else (1, 2, 3, 4)[(km % 2)::2])):
                    run_.case(("laminar", name, N, km, nsteps, L, order))
                    s = registry.make(name, D, N, L=L, dt=dt, order=order, **kw)
                    C = s.num_channels
                    u = ex.repeat(s, nsteps)(jnp.zeros((C,) + (N,) * D))
                    err = maxabs(np.asarray(u) - want)
                    scale = maxabs(want) + 1e-300
                    if not err <= 1e-9 * scale and np.all(np.isfinite(np.asarray(u))):
                        # the laminar state is an exact solution but, for strong forcing and weak damping, a linearly unstable one: rounding
                        # noise in the other modes is amplified. Measure the amplification of a 1e-10 perturbation of the rest state by this very
                        # rollout and allow rounding-sized seeds (2e-16 per mode and step) that much growth.
                        pert = 1e-10 * rng.standard_normal((C,) + (N,) * D)
                        up = ex.repeat(s, nsteps)(jnp.asarray(pert))
                        amp = maxabs(np.asarray(up) - np.asarray(u)) / 1e-10
                        if err <= 1e-9 * scale + 1e3 * amp * 2.2e-16 * max(scale, 1.0):
                            run_.extra["laminar_cases_limited_by_instability"] = run_.extra.get("laminar_cases_limited_by_instability", 0) + 1
                            err = 0.0
                    if not err <= 1e-9 * scale:
                        run_.violation({"kind": "laminar", "cls": name, "D": D, "order": order, "L_is_2pi": bool(abs(L - 2 * np.pi) < 1e-12)},
                                       {"N": N, "injection_mode": km, "steps": nsteps, "L": L, "gamma": gamma, "nu": nu, "drag": drag, "dt": dt,
                                        "rel_err": err / scale, "kw": {k: str(v) for k, v in kw.items()}})
                    if nsamp < 3:
                        run_.sample({"cls": name, "N": N, "injection_mode": km, "steps": nsteps, "L": L, "gamma": gamma, "sigma": sigma,
                                     "predicted_amplitude": g * gamma * omega ** wfac * (km if wfac else 1), "rel_err": err / scale})
                        nsamp += 1
            run_.traces += 1
            if run_.traces % 40 == 0:
                jax.clear_caches()          # thousands of distinct compiled scans otherwise exhaust the process's memory maps (LLVM: cannot allocate memory)
    # ---- weakly damped forced mode and a tiny step (|sigma dt| ~ 1e-9): the coefficient dt phi_1(sigma dt) through which the forcing enters
    # must keep full relative accuracy where a closed-form (exp(z) - 1)/z has lost half its digits; every order
    for st in sts:
        kind, D, N, km, nsteps = st["kind"], st["D"], st["N"], st["kmode"], st["n"]
        if km != 1 or nsteps not in (1, 3) or N not in ((8, 9) if D == 2 else (6,)):
            continue
        wfac = 0 if kind == "velocity3d" else 1
        L, gamma, nu, drag, dt = 2 * np.pi, 1.0, 0.01, 0.0, 1e-7
        sigma = drag - nu
        want = laminar_field(D, N, st["forcing"], wfac, 1.0, gamma, growth(sigma, nsteps * dt))
        names = ["KolmogorovFlowVelocity"] if kind == "velocity3d" else ["KolmogorovFlowVorticity", "GeneralVorticityConvectionStepper"]
        for name in names:
            kw = dict(linear_coefficients=(drag / 2, 0.0, nu), injection_mode=km, injection_scale=gamma) if name.startswith("General") else \
                dict(diffusivity=nu, drag=drag, injection_mode=km, injection_scale=gamma)
            for order in (1, 2, 3, 4):
                run_.case(("laminar-tiny", name, N, nsteps, order))
                s = registry.make(name, D, N, L=L, dt=dt, order=order, **kw)
                u = np.asarray(ex.repeat(s, nsteps)(jnp.zeros((s.num_channels,) + (N,) * D)))
                err, scale = maxabs(u - want), maxabs(want)
                if not err <= 1e-11 * scale:
                    run_.violation({"kind": "laminar", "cls": name, "D": D, "order": order, "regime": "tiny |sigma dt|"},
                                   {"N": N, "steps": nsteps, "dt": dt, "sigma": sigma, "rel_err": err / scale})
    jax.clear_caches()
    # ForcedStepper: zero forcing == unforced, forcing f == unforced step of u + dt f (physical and Fourier entry points)
    for c in zoo.cases(tier, orders=(2,), all_variants=False):
        if tier == "quick" and c["D"] != registry.dims_of(c["name"])[0]:
            continue
        s = zoo.build(c)
        C, D, N = s.num_channels, c["D"], c["N"]
        u = jnp.asarray(zoo.white_noise(rng, C, D, N))
        f = jnp.asarray(zoo.white_noise(rng, C, D, N))
        fs = ex.ForcedStepper(s)
        run_.case(("forced", c["name"], D, N))
        key = {"kind": "ForcedStepper", "cls": c["name"], "D": D}
        a = np.asarray(fs(u, f))
        b = np.asarray(s(u + s.dt * f))
        if maxabs(a - b) > 1e-11 * (1 + maxabs(b)):
            run_.violation(dict(key, what="step(u, f) != step(u + dt f)"), {"err": maxabs(a - b)})
        if maxabs(np.asarray(fs(u, jnp.zeros_like(u))) - np.asarray(s(u))) > 1e-12 * (1 + maxabs(b)):
            run_.violation(dict(key, what="zero forcing != unforced"), {})
        ah = np.asarray(fs.step_fourier(ex.fft(u), ex.fft(f)))
        bh = np.asarray(s.step_fourier(ex.fft(u) + s.dt * ex.fft(f)))
        if maxabs(ah - bh) > 1e-10 * (1 + maxabs(bh)):
            run_.violation(dict(key, what="step_fourier(u, f) != step_fourier(u + dt f)"), {"err": maxabs(ah - bh)})
        # the documented forcing split does not depend on what the wrapped stepper is: around a RepeatedStepper it is one Euler kick with the
        # effective time step followed by the repeated stepper
        rs = ex.RepeatedStepper(s, 2)
        a2 = np.asarray(ex.ForcedStepper(rs).step_fourier(ex.fft(u), ex.fft(f)))
        b2 = np.asarray(rs.step_fourier(ex.fft(u) + rs.dt * ex.fft(f)))
        if maxabs(a2 - b2) > 1e-10 * (1 + maxabs(b2)):
            run_.violation(dict(key, what="ForcedStepper(RepeatedStepper) != RepeatedStepper(u + 2 dt f)"), {"err": maxabs(a2 - b2)})
    run_.rule = ("laminar cases: every TLC state (kind, N, injection mode, number of steps) x domain extents x orders x random (gamma, nu, drag, dt, "
                 "convection scale) replayed as ex.repeat(stepper, n)(zeros) against forcing * (exp(sigma t) - 1)/sigma on the whole field; "
                 "ForcedStepper cases per public class")
    run_.assumptions = ["numpy expm1 for the growth factor", "tolerance 1e-9 relative to the laminar amplitude"]
    shutil.rmtree(work, ignore_errors=True)
    # the composed machine (spec/Session.tla): ForcedStepper around the exact advection step inside multi-step API sessions, both directions
    from .. import session, sessiontrace
    import jax.numpy as _jnp
    import exponax as _ex
    session.run_for(run_, tier, seed, _ex, _jnp, ['forced'], PID)
    sessiontrace.run_for(run_, tier, seed, _ex, _jnp, ['forced'], PID)
    return run_.finish()


def replay(path):
    return run("quick", 0)
