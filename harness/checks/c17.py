"""C17 Radial spectrum: every mode lands in its documented bin with Parseval weights."""
from __future__ import annotations

import os
import shutil

import numpy as np

from .. import tlc
from ..evidence import Run
from ..num import as_map, fq, maxabs, setup_jax, wshape
from ..tlaval import iter_dump_states

PID = "C17"
INVS = ["OneBinOK", "AmplitudeOK", "PowerOK", "AverageOK"]


def vec(m, N):
    a = np.zeros(N // 2 + 1)
    for b, v in as_map(m).items():
        a[b] = float(fq(v))
    return a


def run(tier: str, seed: int) -> int:
    run_ = Run(PID, tier, seed)
    setup_jax(True)
    import jax.numpy as jnp
    import exponax as ex
    rng = np.random.default_rng(seed)
    work = os.path.join(tlc.SCRATCH, f"c17.{os.getpid()}")
    os.makedirs(work, exist_ok=True)
    dn = [1008, 1009, 1016, 2006, 2007, 2008, 2009, 2012, 3004, 3005, 3006] if tier == "quick" else \
        [1000 + n for n in range(3, 34)] + [2000 + n for n in range(3, 17)] + [3000 + n for n in range(3, 11)]
    cfg = os.path.join(work, "MC_Spectrum.cfg")
    tlc.write_cfg(cfg, constants={"DNSet": "{" + ",".join(map(str, dn)) + "}"}, invariants=INVS)
    res = tlc.run_tlc("MC_Spectrum", cfg, workers=16, dump=True, timeout=3000)
    run_.add_tlc(res, "MC_Spectrum")
    if not res.ok:
        run_.violation({"kind": "spec", "invariant": res.violated}, {"trace": res.trace_text})
    states = {}
    for st in iter_dump_states(res.dump):
        states[(st["D"], st["N"], tuple(st["kappa"]), st["trig"])] = st["spec"]
    tlc.cleanup(res)
    keys = sorted(states)
    nsamp = 0
    import functools
    import jax
    groups = {}
    for k in keys:
        groups.setdefault((k[0], k[1]), []).append(k)
    for (D, N), ks in sorted(groups.items()):
        grid = np.asarray(ex.make_grid(D, 2 * np.pi, N))
        fields, meta = [], []
        for (_, _, kappa, trig) in ks:
            theta = sum(kappa[d] * grid[d] for d in range(D))
            a = float(rng.uniform(0.5, 2.5))
            u = a * (np.cos(theta) if trig == "cos" else np.sin(theta))
            # second channel: another basis function of the same grid -> channels must be treated independently
            k2 = ks[int(rng.integers(0, len(ks)))]
            th2 = sum(k2[2][d] * grid[d] for d in range(D))
            # ... whatever their relative magnitude (seven decades below, five above)
            a2 = float(rng.uniform(0.5, 2.5)) * float(rng.choice([1.0, 1.0, 1e-7, 1e5]))
            u2 = a2 * (np.cos(th2) if k2[3] == "cos" else np.sin(th2))
            fields.append(np.stack([u, u2]))
            meta.append((kappa, trig, a, k2, a2))
        F = jnp.asarray(np.stack(fields))
        for power, binning, name in ((False, "sum", "amp_sum"), (True, "sum", "pow_sum"), (False, "average", "amp_avg"), (True, "average", "pow_avg")):
            fn = jax.jit(jax.vmap(functools.partial(ex.get_spectrum, power=power, radial_binning=binning)))
            G2 = np.nan_to_num(np.asarray(fn(F)), nan=0.0)
            G1 = np.nan_to_num(np.asarray(fn(F[:, :1])), nan=0.0)
            for i, (kappa, trig, a, k2, a2) in enumerate(meta):
                sp, sp2 = states[(D, N, kappa, trig)], states[k2]
                w1 = vec(sp[name], N) * (a ** 2 if power else a)
                w2 = vec(sp2[name], N) * (a2 ** 2 if power else a2)
                want = np.stack([w1, w2])
                if G2[i].shape != want.shape or any(maxabs(G2[i][c] - want[c]) > 1e-10 * (am ** 2 if power else am) for c, am in ((0, a), (1, a2))):
                    run_.violation({"kind": "basis", "D": D, "N": N, "what": name},
                                   {"kappa": list(kappa), "trig": trig, "second": [list(k2[2]), k2[3]], "got": G2[i].tolist(), "want": want.tolist()})
                if G1[i].shape != (1, N // 2 + 1) or maxabs(G1[i][0] - w1) > 1e-10 * (1 + maxabs(w1)):
                    run_.violation({"kind": "basis-single-channel", "D": D, "N": N, "what": name}, {"kappa": list(kappa), "trig": trig})
        # superposition inside one channel with a large dynamic range: a weak mode next to a strong one in another bin keeps its own bin exactly
        sup, smeta = [], []
        for (kappa, trig, a, k2, a2) in meta[:: max(1, len(meta) // 12)]:
            w1 = vec(states[(D, N, kappa, trig)]["amp_sum"], N)
            w2 = vec(states[k2]["amp_sum"], N)
            if np.any((w1 != 0) & (w2 != 0)) or not w2.any() or not w1.any():
                continue
            th1 = sum(kappa[d] * grid[d] for d in range(D))
            th2 = sum(k2[2][d] * grid[d] for d in range(D))
            eps = 1e-7
            sup.append((np.cos(th1) if trig == "cos" else np.sin(th1)) + eps * (np.cos(th2) if k2[3] == "cos" else np.sin(th2)))
            smeta.append((kappa, trig, k2, w1 + eps * w2, eps * maxabs(w2)))
        if sup:
            G = np.nan_to_num(np.asarray(jax.vmap(functools.partial(ex.get_spectrum, power=False, radial_binning="sum"))(jnp.asarray(np.stack(sup))[:, None])), nan=0.0)
            for i, (kappa, trig, k2, want, small) in enumerate(smeta):
                run_.case(("dynamic-range", D, N, kappa, trig, k2))
                if maxabs(G[i][0] - want) > 1e-8 * small + 1e-14:
                    run_.violation({"kind": "dynamic-range", "D": D, "N": N, "what": "weak mode next to a strong one"},
                                   {"kappa": list(kappa), "weak": [list(k2[2]), k2[3]], "err": maxabs(G[i][0] - want), "weak_amplitude": small})
        for (kappa, trig, a, k2, a2) in meta:
            run_.case((D, N, kappa, trig))
            if nsamp < 3 and D > 1:
                run_.sample({"D": D, "N": N, "kappa": list(kappa), "trig": trig, "amplitude": a,
                             "spec_amp_sum": {str(bb): list(v) for bb, v in as_map(states[(D, N, kappa, trig)]["amp_sum"]).items()}})
                nsamp += 1
    run_.traces = len(states)
    # random states: sum binning is additive over the basis (Parseval inside the Nyquist sphere); checked against the explicit per-mode sum
    for D, N in ((1, 16), (2, 8), (2, 9), (3, 6), (3, 5)):
        if (D, N) not in {(k[0], k[1]) for k in keys} and tier == "quick":
            continue
        u = rng.standard_normal((2,) + (N,) * D)
        got = np.asarray(ex.get_spectrum(jnp.asarray(u), power=True, radial_binning="sum"))
        uh = np.asarray(ex.fft(jnp.asarray(u)))
        kk = np.asarray(ex.spectral.build_wavenumbers(D, N))
        sq = np.rint(np.sum(kk ** 2, axis=0)).astype(int)
        last = np.indices(wshape(D, N))[-1]
        den = np.where((last == 0) | ((N % 2 == 0) & (last == N // 2)), 1.0, 2.0)
        q = 0.5 * np.abs(uh) ** 2 * den / float(N) ** (2 * D)
        want = np.zeros((2, N // 2 + 1))
        for b in range(N // 2 + 1):
            mask = (last == b) if D == 1 else ((4 * sq >= (2 * b - 1) ** 2 if b > 0 else sq >= 0) & (4 * sq < (2 * b + 1) ** 2))
            want[:, b] = q[:, mask].sum(axis=1)
        run_.case(("random", D, N))
        if maxabs(got - want) > 1e-10 * (1 + maxabs(want)):
            run_.violation({"kind": "random", "D": D, "N": N}, {"err": maxabs(got - want)})
    run_.rule = ("one case per TLC state = real basis function (D, N, kappa, cos|sin) of the whole grid (negative wavenumbers on leading axes, corners, "
                 "Nyquist), with random amplitude and a second random basis function in a second channel; power/amplitude x sum/average compared bin by bin")
    run_.exhaustive = True
    run_.assumptions = ["numpy cos/sin for the fields", "tolerance 1e-10"]
    shutil.rmtree(work, ignore_errors=True)
    # ---- default (float32) session: the same public calls on the same inputs in a float32 child process
    from .. import xsession as _xs
    import numpy as _np
    _rng = _np.random.default_rng(seed + 77)
    _cases = []
    for _D, _N in ((1, 16), (2, 8), (3, 6), (1, 15), (2, 9), (3, 5)):
        _u = _rng.standard_normal((2,) + (_N,) * _D)
        for _pw in (True, False):
            for _rb in ("sum", "average"):
                _cases.append(dict(id=f"spec/{_D}/{_N}/{_pw}/{_rb}", name="get_spectrum", args=[_u], kw=dict(power=_pw, radial_binning=_rb)))
    _xs.compare(run_, PID, _cases, work + "_xs")
    # the composed machine (spec/Session.tla): multi-step API sessions generated by TLC -simulate, replayed call by call; this check
    # reports the mismatches of the operations it owns (spectrum)
    from .. import session
    import jax.numpy as _jnp
    import exponax as _ex
    session.run_for(run_, tier, seed, _ex, _jnp, ['spectrum'], PID)
    if tier != "quick":
        session.exhaustive(run_, PID)          # the complete state graph of a tiny instance of the composed machine
    from .. import sessiontrace   # the other direction: driver-chosen sessions executed by the library, every returned state validated by TLC (Trace_Session.tla)
    sessiontrace.run_for(run_, tier, seed, _ex, _jnp, ['spectrum'], PID)
    return run_.finish()


def replay(path):
    return run("quick", 0)
