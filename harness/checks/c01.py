"""C01 Linear steppers advance band-limited states by the exact PDE solution."""
from __future__ import annotations

import os
import shutil

import numpy as np

from .. import linear, registry, tlc
from ..evidence import Run
from ..num import maxabs, setup_jax, wshape

PID = "C01"


def rand_params(rng):
    L = float(rng.choice([1.0, 2 * np.pi, 0.37, 7.3, 50.0]))
    dt = float(rng.choice([1e-3, 0.1, 1.0, 7.0, 1e3, 1e6]))
    return L, dt


def nyq_free_state(ex, jnp, rng, D, N, C=1):
    u = rng.standard_normal((C,) + (N,) * D)
    uh = np.asarray(ex.fft(jnp.asarray(u))) * np.asarray(ex.spectral.oddball_filter_mask(D, N))
    return np.asarray(ex.ifft(jnp.asarray(uh), num_spatial_dims=D, num_points=N))


def exact_evolve(ex, jnp, u, lam_dt_t, D, N):
    """u real (1,...) Nyquist-free; multiply its spectrum by exp(lam*dt*t) (lam array on the half-spectrum)."""
    uh = np.asarray(ex.fft(jnp.asarray(u)))
    return np.asarray(ex.ifft(jnp.asarray(uh * np.exp(lam_dt_t)[None]), num_spatial_dims=D, num_points=N))


def check_tables(run, tables, ex, jnp, rng, tier):
    nsamp = 0
    for (cls, mix, D, N), table in sorted(tables.items()):
        if cls == "Wave":
            check_wave(run, D, N, table, ex, jnp, rng)
            continue
        for lab, params, (rname, kw) in linear.draw_variants(cls, mix, D, rng, maxj=4 if N > 35 else 6):
            for rep in range(2 if tier == "quick" else 4):
                L, dt = rand_params(rng)
                if rng.uniform() < 0.3:
                    dt = -dt if cls in ("Advection", "Dispersion") else dt
                if cls == "GeneralLinear":
                    dt = float(rng.choice([1e-3, 0.1, 1.0]))
                    # keep |z| moderate: growth from odd/even mixes is bounded by construction of the coefficients
                omega = 2 * np.pi / L
                key = {"kind": "multiplier", "cls": cls, "mix": mix, "D": D, "N": N, "variant": lab}
                run.case(("mult", cls, mix, D, N, lab, rep))
                # dt * lambda is what matters: a tiny coefficient list with a huge dt is the same step (SI-unit coefficients)
                if cls == "GeneralLinear" and rep == 1:
                    kw = dict(kw, linear_coefficients=tuple(c * 1e-11 for c in kw["linear_coefficients"]))
                    params = {k: v * 1e-11 for k, v in params.items()}
                    dt = dt * 1e11
                try:
                    st = registry.make(rname, D, N, L=L, dt=dt, **{k: (jnp.asarray(v) if isinstance(v, np.ndarray) else v) for k, v in kw.items()})
                except Exception as e:  # noqa: BLE001
                    run.violation(dict(key, what="constructor"), {"exc": repr(e)[:300]})
                    continue
                lam = linear.symbol_array(D, N, table, params, omega)
                z = lam * dt
                ok_finite = np.real(z) < 600
                want = np.exp(np.where(ok_finite, z, 0))
                got = np.asarray(st.step_fourier(jnp.ones((1,) + wshape(D, N), dtype=complex)))[0]
                # rounding of the argument: every term of the symbol is rounded at its own magnitude (terms may cancel, e.g. c (k1 + k2 + k3) = 0)
                zabs = linear.symbol_abs_array(D, N, table, params, omega) * abs(dt)
                tol = 1e-11 * (1 + zabs) * np.maximum(1.0, np.abs(want))
                bad = ok_finite & ~(np.abs(got - want) <= tol)
                if bad.any():
                    s = tuple(int(i) for i in np.argwhere(bad)[0])
                    run.violation(dict(key, what="step_fourier(ones) vs exp(dt*lambda)"),
                                  {"index": list(s), "got": complex(got[s]), "want": complex(want[s]), "L": L, "dt": dt, "n_bad": int(bad.sum()),
                                   "params": {str(k): float(v) for k, v in params.items()}})
                if nsamp < 3:
                    s = tuple(min(1, n - 1) for n in wshape(D, N))
                    run.sample({"cls": cls, "mix": mix, "D": D, "N": N, "variant": lab, "L": L, "dt": dt, "index": list(s),
                                "lambda": [lam[s].real, lam[s].imag], "multiplier_code": [got[s].real, got[s].imag]})
                    nsamp += 1
                # physical space: random Nyquist-free superposition, one call == analytic solution
                u = nyq_free_state(ex, jnp, rng, D, N)
                if np.all(np.real(z) < 30):
                    got_u = np.asarray(st(jnp.asarray(u)))
                    want_u = exact_evolve(ex, jnp, u, z, D, N)
                    scale = 1 + maxabs(want_u)
                    if got_u.shape != u.shape or maxabs(got_u - want_u) > 1e-10 * scale * (1 + zabs.max()):
                        run.violation(dict(key, what="stepper(u) vs analytic"), {"err": maxabs(got_u - want_u), "L": L, "dt": dt})
                    # states WITH Nyquist content: the exact solution is still multiplier x spectrum whenever the multiplier is real on the
                    # self-conjugate lines (Layout.Realify leaves real multiples of real entries alone): every symbol with even orders only
                    if np.all(np.abs(np.imag(z)) == 0):
                        uw = rng.standard_normal((1,) + (N,) * D)
                        got_w = np.asarray(st(jnp.asarray(uw)))
                        want_w = exact_evolve(ex, jnp, uw, z, D, N)
                        if got_w.shape != uw.shape or maxabs(got_w - want_w) > 1e-10 * (1 + maxabs(want_w)) * (1 + zabs.max()):
                            run.violation(dict(key, what="stepper(white noise) vs analytic"), {"err": maxabs(got_w - want_w), "L": L, "dt": dt})
        # the normalized / difficulty interfaces of the generic family
        if cls == "GeneralLinear":
            check_generic_family(run, D, N, table, ex, jnp, rng)


def check_growth(run, tables, ex, jnp, rng):
    """Growing modes (anti-diffusion, or a dissipative stepper run with negative dt): the step is still exp(dt*lambda), far beyond the
    float32 range in a float64 session (exponents up to ~650)."""
    for (cls, mix, D, N), table in sorted(tables.items()):
        if cls not in ("Diffusion", "HyperDiffusion") or mix or N > 12 or D == 3:
            continue
        for target in (40.0, 95.0, 300.0, 650.0):
            for mode in ("negative coefficient", "negative dt"):
                L = float(rng.choice([1.0, 2 * np.pi, 3.0]))
                omega = 2 * np.pi / L
                a = 0.3
                if cls == "Diffusion":
                    params = {("diffusivity", i, j): (a if i == j else 0.0) for i in range(1, D + 1) for j in range(1, D + 1)}
                    kw = dict(diffusivity=a)
                else:
                    params = {("hyper_diffusivity", 0, 0): a}
                    kw = dict(hyper_diffusivity=a)
                lam = linear.symbol_array(D, N, table, params, omega)          # dissipative: Re lambda <= 0
                dt = target / float(np.max(-lam.real))
                if mode == "negative coefficient":
                    st = registry.make(cls, D, N, L=L, dt=dt, **{k: -v for k, v in kw.items()})
                else:
                    st = registry.make(cls, D, N, L=L, dt=-dt, **kw)
                z = -lam * dt
                want = np.exp(z)
                got = np.asarray(st.step_fourier(jnp.ones((1,) + wshape(D, N), dtype=complex)))[0]
                run.case(("growth", cls, D, N, target, mode))
                bad = ~(np.abs(got - want) <= 1e-11 * (1 + np.abs(z)) * np.abs(want))
                if bad.any():
                    s_ = tuple(int(i) for i in np.argwhere(bad)[0])
                    run.violation({"kind": "multiplier", "cls": cls, "D": D, "N": N, "what": f"growing mode ({mode})"},
                                  {"index": list(s_), "exponent": float(z[s_].real), "got": complex(got[s_]), "want": complex(want[s_])})


def check_generic_family(run, D, N, table, ex, jnp, rng):
    for J in (1, 2, 3, 4):
        alpha = rng.uniform(-1, 1, J + 1) * np.array([0.3 / (2 * np.pi * max(1, N // 2)) ** j for j in range(J + 1)])
        alpha[0] = -abs(alpha[0])
        if J >= 2:
            alpha[2] = abs(alpha[2])
        if J >= 4:
            alpha[4] = -abs(alpha[4])
        params = {("a", j, 0): (alpha[j] if j <= J else 0.0) for j in range(0, 7)}
        lam = linear.symbol_array(D, N, table, params, 2 * np.pi)       # L = 1, dt = 1
        want = np.exp(lam)
        ones = jnp.ones((1,) + wshape(D, N), dtype=complex)
        key = {"kind": "generic-family", "D": D, "N": N, "J": J}
        run.case(("genfam", D, N, J))
        st = ex.stepper.generic.NormalizedLinearStepper(D, N, normalized_linear_coefficients=tuple(float(a) for a in alpha))
        got = np.asarray(st.step_fourier(ones))[0]
        if maxabs(got - want) > 1e-11 * (1 + np.abs(lam.imag).max()):
            run.violation(dict(key, cls="NormalizedLinearStepper"), {"err": maxabs(got - want)})
        gamma = [alpha[0]] + [alpha[j] * N ** j * 2 ** (j - 1) * D for j in range(1, J + 1)]
        st = ex.stepper.generic.DifficultyLinearStepper(D, N, linear_difficulties=tuple(float(g) for g in gamma))
        got = np.asarray(st.step_fourier(ones))[0]
        if maxabs(got - want) > 1e-11 * (1 + np.abs(lam.imag).max()):
            run.violation(dict(key, cls="DifficultyLinearStepper"), {"err": maxabs(got - want)})
    for order in (1, 2, 3, 4):
        g = float(rng.uniform(-2, 2)) if order % 2 == 1 else float((1 if order % 4 == 2 else -1) * rng.uniform(0.1, 2))
        alpha = g / (N ** order * 2 ** (order - 1) * D)
        params = {("a", j, 0): (alpha if j == order else 0.0) for j in range(0, 7)}
        lam = linear.symbol_array(D, N, table, params, 2 * np.pi)
        st = ex.stepper.generic.DifficultyLinearStepperSimple(D, N, difficulty=g, order=order)
        got = np.asarray(st.step_fourier(jnp.ones((1,) + wshape(D, N), dtype=complex)))[0]
        run.case(("simple", D, N, order))
        if maxabs(got - np.exp(lam)) > 1e-11 * (1 + np.abs(lam.imag).max()):
            run.violation({"kind": "generic-family", "cls": "DifficultyLinearStepperSimple", "D": D, "N": N, "order": order},
                          {"err": maxabs(got - np.exp(lam))})


def wave_exact(ex, D, N, L, c, h, v, time):
    kk = np.asarray(ex.spectral.build_wavenumbers(D, N))
    sq = np.sum(kk ** 2, axis=0)             # |k|^2 integer table (bound to the layout table by C04)
    kap = 2 * np.pi / L * np.sqrt(sq)
    th = c * kap * time
    with np.errstate(divide="ignore", invalid="ignore"):
        hn = h * np.cos(th) + np.where(sq == 0, time * v, v * np.sin(th) / np.where(sq == 0, 1, c * kap))
        vn = -c * kap * h * np.sin(th) + v * np.cos(th)
    return hn, vn, th


def check_wave_behaviour(run, D, N, hist, ex, jnp, rng):
    L, dt, c = 2.3, 0.35, 1.7
    ws = wshape(D, N)
    u0 = nyq_free_state(ex, jnp, rng, D, N, C=2)
    uh0 = np.asarray(ex.fft(jnp.asarray(u0)))
    u = jnp.asarray(u0)
    tt = 0
    steppers = {}
    for act, n in hist:
        if n not in steppers:
            steppers[n] = ex.stepper.Wave(D, L, N, dt * n, speed_of_sound=c)
        u = steppers[n](u)
        tt += n
        hn, vn, th = wave_exact(ex, D, N, L, c, uh0[0], uh0[1], tt * dt)
        want = np.asarray(ex.ifft(jnp.asarray(np.stack([hn, vn])), num_spatial_dims=D, num_points=N))
        if maxabs(np.asarray(u) - want) > 1e-9 * (1 + maxabs(want)):
            run.violation({"kind": "behaviour", "cls": "Wave", "D": D, "N": N, "hist": [list(h) for h in hist]},
                          {"after": [act, n], "t": tt, "err": maxabs(np.asarray(u) - want)})
            return False
    return True


def check_wave(run, D, N, table, ex, jnp, rng):
    """Exact 2x2 solution per mode: h' = h cos(th) + v sin(th)/(c kap), v' = -c kap h sin(th) + v cos(th); DC: h += dt v."""
    for rep in range(2):
        L = float(rng.choice([1.0, 2 * np.pi, 3.3]))
        dt = float(rng.choice([0.01, 0.7, 25.0, -0.3]))
        c = float(rng.choice([1.0, 0.4, 2.5]))
        run.case(("wave", D, N, rep))
        st = ex.stepper.Wave(D, L, N, dt, speed_of_sound=c)
        ws = wshape(D, N)
        h = rng.standard_normal(ws) + 1j * rng.standard_normal(ws)
        v = rng.standard_normal(ws) + 1j * rng.standard_normal(ws)
        hn, vn, th = wave_exact(ex, D, N, L, c, h, v, dt)
        got = np.asarray(st.step_fourier(jnp.asarray(np.stack([h, v]))))
        err = max(maxabs(got[0] - hn), maxabs(got[1] - vn))
        if err > 1e-10 * (1 + np.abs(th).max()) * (1 + maxabs(vn)):
            run.violation({"kind": "wave", "D": D, "N": N, "what": "step_fourier vs 2x2 solution"}, {"err": err, "L": L, "dt": dt, "c": c})


def check_behaviours(run, tables, behs, ex, jnp, rng, tier):
    """Replay TLC's Step / StepBack / StepN behaviours on real steppers, comparing after every action."""
    done = 0
    for cls, mix, D, N, hist, t in behs:
        if tier == "quick" and (D == 3 or N > 9):
            continue
        if cls == "Wave":
            run.case(("behaviour", cls, mix, D, N, tuple(hist)))
            done += 1 if check_wave_behaviour(run, D, N, hist, ex, jnp, rng) else 0
            continue
        table = tables[(cls, mix, D, N)]
        variants = linear.draw_variants(cls, mix, D, rng, maxj=4 if N > 35 else 6)
        if not variants:
            continue
        lab, params, (rname, kw) = variants[-1] if cls != "GeneralLinear" else variants[2]
        L = float(rng.choice([1.0, 2 * np.pi, 4.2]))
        dt = float(rng.choice([0.05, 0.4]))
        omega = 2 * np.pi / L
        lam = linear.symbol_array(D, N, table, params, omega)
        kwj = {k: (jnp.asarray(v) if isinstance(v, np.ndarray) else v) for k, v in kw.items()}
        steppers = {}

        def get(mult):
            if mult not in steppers:
                steppers[mult] = registry.make(rname, D, N, L=L, dt=dt * mult, **kwj)
            return steppers[mult]
        u0 = nyq_free_state(ex, jnp, rng, D, N)
        u = jnp.asarray(u0)
        tt = 0
        run.case(("behaviour", cls, mix, D, N, tuple(hist)))
        okb = True
        for act, n in hist:
            u = get(n)(u)
            tt += n
            want = exact_evolve(ex, jnp, u0, lam * dt * tt, D, N)
            if not np.all(np.isfinite(want)) or maxabs(want) > 1e6:
                okb = False
                break
            if maxabs(np.asarray(u) - want) > 1e-9 * (1 + maxabs(want)) * (1 + np.abs(lam.imag).max() * abs(dt) * (abs(tt) + 1)):
                run.violation({"kind": "behaviour", "cls": cls, "mix": mix, "D": D, "N": N, "hist": [list(h) for h in hist]},
                              {"after": [act, n], "t": tt, "err": maxabs(np.asarray(u) - want)})
                okb = False
                break
        if okb:
            done += 1
            assert tt == t, (hist, tt, t)
    run.traces += done


def run(tier: str, seed: int) -> int:
    run_ = Run(PID, tier, seed)
    setup_jax(True)
    import jax.numpy as jnp
    import exponax as ex
    rng = np.random.default_rng(seed)
    work = os.path.join(tlc.SCRATCH, f"c01.{os.getpid()}")
    os.makedirs(work, exist_ok=True)
    res = linear.run_model(run_, tier, work)
    tables, behs = linear.load(res)
    tlc.cleanup(res)
    check_tables(run_, tables, ex, jnp, rng, tier)
    check_growth(run_, tables, ex, jnp, rng)
    for (cls, mix, D, N) in sorted(tables):
        if cls == "GeneralLinear" and not mix:
            pass
    # Wave has no term list; run it for every (D, N) of the table
    for (D, N) in sorted({(k[2], k[3]) for k in tables}):
        check_wave(run_, D, N, None, ex, jnp, rng)
    check_behaviours(run_, tables, behs, ex, jnp, rng, tier)
    run_.traces += sum(len(t) for t in tables.values())
    run_.rule = ("multiplier cases: (class, flag, D, N, coefficient variant, parameter draw) - every stored index compared; behaviour cases: every "
                 "TLC behaviour of Step/StepBack/StepN (depth <= 3) replayed on real steppers with dt, -dt, n*dt and compared after each action")
    run_.exhaustive = True
    run_.assumptions = ["numpy complex exp as the evaluator of the EXP atom", "tolerance 1e-11 (1+|Im z|)",
                        "fft/ifft conventions (bound by C04) used to build Nyquist-free states and the analytic solution"]
    shutil.rmtree(work, ignore_errors=True)
    # the composed machine (spec/Session.tla): multi-step API sessions generated by TLC -simulate, replayed call by call; this check
    # reports the mismatches of the operations it owns (advect)
    from .. import session
    import jax.numpy as _jnp
    import exponax as _ex
    session.run_for(run_, tier, seed, _ex, _jnp, ['advect'], PID)
    from .. import sessiontrace   # the other direction: driver-chosen sessions executed by the library, every returned state validated by TLC (Trace_Session.tla)
    sessiontrace.run_for(run_, tier, seed, _ex, _jnp, ['advect'], PID)
    return run_.finish()


def replay(path):
    return run("quick", 0)
