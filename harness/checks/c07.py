"""C07 Steppers are differentiable with correct derivatives.

(1) MC_Diff (TLC): the exact directional derivative of every documented nonlinear term (five-point stencil in Q(i), exact for polynomial
    maps) with linearity / polarisation / Euler / band invariants; every terminal state is replayed against jax.jvp of the real
    nonlinear-function objects (physical space), and reverse mode against forward mode (adjoint identity).
(2) Linear steppers: from the TLC symbol tables (Symbols / MC_Linear) the Jacobian is the linear map itself, the adjoint has the conjugate
    symbol, d/d(dt) = lambda exp(lambda dt), d/d(coefficient) = dt (d lambda / d coefficient) exp(lambda dt) (every symbol is linear in the PDE
    coefficients); replayed with jax.jvp / jax.vjp / jax.jacfwd on the real steppers.
(3) Semi-linear steppers: the tangent-linear ETDRK step assembled from the specification's tableau (mpmath) and the exact stencil derivative
    of the stepper's own nonlinear function (primal evaluations only, recorded at the BaseNonlinearFun boundary) is compared with jax.jvp for
    every public class x order; d/d(dt), d/d(coefficients), rollouts and guarded states against 6th-order central differences of the primal
    code in float64; reverse mode against forward mode; finiteness on the zero state and on states concentrated on the guarded modes."""
from __future__ import annotations

import inspect
import os
import shutil

import numpy as np

from .. import etdrk, linear, nonlin, registry, tlc, zoo
from ..evidence import Run
from ..num import as_map, cq, maxabs, setup_jax, wshape
from ..tlaval import iter_dump_states
from .c01 import exact_evolve, nyq_free_state

PID = "C07"
INVS = ["LinearOK", "PolarOK", "LinearMapOK", "DBandOK", "EulerOK"]
QUICK = [
    ("d1", [1009, 1012], ["conv_mc_cons", "conv_mc_non", "conv_sc_cons", "conv_sc_non", "gradnorm_fix", "gradnorm_nofix", "poly2", "poly3", "general_fix",
                          "cahn_hilliard", "gray_scott"]),
    ("d2", [2006], ["conv_mc_cons", "conv_mc_non", "conv_sc_non", "gradnorm_fix", "general_nofix", "vort2d", "leray"]),
    ("d3", [3004], ["leray"]),
    ("d3b", [3006], ["rot3d"]),
]
THOROUGH = [
    ("d1", [1008, 1009, 1012, 1015], ["conv_mc_cons", "conv_mc_non", "conv_sc_cons", "conv_sc_non", "gradnorm_fix", "gradnorm_nofix", "poly2", "poly3",
                                      "general_fix", "general_nofix", "cahn_hilliard", "gray_scott"]),
    ("d2", [2005, 2006, 2008], ["conv_mc_cons", "conv_mc_non", "conv_sc_cons", "conv_sc_non", "gradnorm_fix", "general_fix", "general_nofix", "vort2d", "leray", "poly2"]),
    ("d2c", [2008], ["poly3", "cahn_hilliard"]),          # cubic terms: 1/2 dealiasing keeps modes <= 1 from N = 8 on
    ("d3", [3004, 3005], ["leray"]),
    ("d3b", [3006], ["rot3d", "conv_mc_non", "conv_mc_cons", "gradnorm_fix"]),
]
FD6 = ((-3, -1 / 60), (-2, 3 / 20), (-1, -3 / 4), (1, 3 / 4), (2, -3 / 20), (3, 1 / 60))


def fd6(f, x, h):
    """6th-order central difference of an array-valued function of a scalar (primal code only, float64)."""
    return sum(c * np.asarray(f(x + k * h)) for k, c in FD6) / h


def stencil5(F, a, da):
    """exact directional derivative of a polynomial map of degree <= 4 (primal evaluations only)"""
    return (8 * (np.asarray(F(a + da)) - np.asarray(F(a - da))) - (np.asarray(F(a + 2 * da)) - np.asarray(F(a - 2 * da)))) / 12


def run_diff_model(run_, dn, terms, label):
    work = os.path.join(tlc.SCRATCH, f"c07.{os.getpid()}.{label}")
    os.makedirs(work, exist_ok=True)
    cfg = os.path.join(work, "MC_Diff.cfg")
    tlc.write_cfg(cfg, spec="DSpec", constants={"DNSet": "{" + ",".join(map(str, dn)) + "}", "TermSet": "{" + ",".join('"%s"' % t for t in terms) + "}",
                                                "Extra": 0, "HalfFrac": "FALSE"}, invariants=INVS)
    res = tlc.run_tlc("MC_Diff", cfg, workers=16, dump=True, timeout=6000, tag="MC_Diff_" + label)
    run_.add_tlc(res, "MC_Diff/" + label)
    if not res.ok:
        run_.violation({"kind": "spec", "invariant": res.violated, "label": label}, {"trace": res.trace_text})
    return res


def replay_nonlin(run_, res, ex, jnp, jax, rng):
    groups = {}
    dec = lambda F: [{k: cq(c) for k, c in as_map(f).items()} for f in F]  # noqa: E731
    for st in iter_dump_states(res.dump, must_contain='pc = "jvp"'):
        groups.setdefault((st["term"], st["D"], st["N"]), []).append((dec(st["inp"]), dec(st["tan"]), dec(st["jvp"])))
    nsamp = 0
    nonvac, allgroups = set(), set()
    for (term, D, N), cases in sorted(groups.items()):
        fun = nonlin.build(ex, jnp, term, D, N)

        def g(u, fun=fun, D=D, N=N):
            return ex.ifft(fun(ex.fft(u, num_spatial_dims=D)), num_spatial_dims=D, num_points=N)
        jv = jax.jit(jax.vmap(lambda u, v: jax.jvp(g, (u,), (v,))[1]))
        vj = jax.jit(jax.vmap(lambda u, w: jax.vjp(g, u)[1](w)[0]))
        for i0 in range(0, len(cases), 1024):
            chunk = cases[i0:i0 + 1024]
            U = np.stack([nonlin.state_to_half(ex, jnp, D, N, inp)[0] for inp, _, _ in chunk])
            V = np.stack([nonlin.state_to_half(ex, jnp, D, N, tan)[0] for _, tan, _ in chunk])
            got = np.asarray(jv(jnp.asarray(U), jnp.asarray(V)))
            got_hat = np.asarray(ex.fft(jnp.asarray(got.reshape((-1,) + got.shape[2:])), num_spatial_dims=D)).reshape(got.shape[:2] + wshape(D, N))
            W = rng.standard_normal(got.shape)
            back = np.asarray(vj(jnp.asarray(U), jnp.asarray(W)))
            for j, (inp, tan, pred) in enumerate(chunk):
                want = np.stack([nonlin.dense_from_twosided(D, N, f) for f in pred])
                ND = float(N) ** D
                scale = ND * (1 + max((abs(c) for f in pred for c in f.values()), default=0.0))
                err = maxabs(got_hat[j] - want)
                run_.case(None)
                tol = 1e-9 if term not in ("cahn_hilliard", "gray_scott") else 1e-7
                if not np.all(np.isfinite(got[j])) or not err <= tol * scale:
                    run_.violation({"kind": "jvp-nonlinear-term", "term": term, "D": D, "N": N},
                                   {"primal_modes": [list(k) for f in inp for k in f], "tangent_modes": [list(k) for f in tan for k in f], "err_rel": err / scale})
                lhs, rhs = float(np.sum(W[j] * got[j])), float(np.sum(back[j] * V[j]))
                if not np.all(np.isfinite(back[j])) or not abs(lhs - rhs) <= 1e-9 * (1 + abs(lhs) + float(np.sum(np.abs(W[j])) * maxabs(got[j]))):
                    run_.violation({"kind": "vjp-adjoint-nonlinear-term", "term": term, "D": D, "N": N}, {"lhs": lhs, "rhs": rhs})
                if nsamp < 3 and D > 1 and len(pred[0]) > 0:
                    run_.sample({"term": term, "D": D, "N": N, "primal": [{str(list(k)): [c.real, c.imag] for k, c in f.items()} for f in inp],
                                 "tangent": [{str(list(k)): [c.real, c.imag] for k, c in f.items()} for f in tan],
                                 "spec_jvp": [{str(list(k)): [c.real, c.imag] for k, c in f.items()} for f in pred]})
                    nsamp += 1
        if not any(len(f) > 0 for _, _, pred in cases for f in pred):
            # a grid whose retained band is (nearly) empty makes every derivative of this term vanish: that replay decides nothing
            run_.extra.setdefault("vacuous_jvp_groups", []).append(f"{term}/D={D}/N={N}")
        else:
            run_.nontrivial.add(("jvp", term, D, N))
            nonvac.add((term, D))
        allgroups.add((term, D))
        run_.traces += len(cases)
    if allgroups - nonvac:
        raise RuntimeError(f"vacuous jvp replay: every predicted derivative is zero for {sorted(allgroups - nonvac)}")


def check_linear(run_, tables, ex, jnp, jax, rng, tier):
    for (cls, mix, D, N), table in sorted(tables.items()):
        if cls == "Wave" or N > 12:
            continue
        for lab, params, (rname, kw) in linear.draw_variants(cls, mix, D, rng):
            L, dt = float(rng.choice([1.0, 2 * np.pi, 3.0])), float(rng.choice([0.05, 0.3]))
            omega = 2 * np.pi / L
            key = {"kind": "linear", "cls": rname, "D": D, "N": N, "mode": lab}
            kwj = {k: (jnp.asarray(v) if isinstance(v, np.ndarray) else v) for k, v in kw.items()}
            st = registry.make(rname, D, N, L=L, dt=dt, **kwj)
            lam = linear.symbol_array(D, N, table, params, omega)
            if np.max(np.real(lam * dt)) > 30:
                continue
            u = nyq_free_state(ex, jnp, rng, D, N)
            v = nyq_free_state(ex, jnp, rng, D, N)
            w = nyq_free_state(ex, jnp, rng, D, N)
            run_.case(("lin", rname, D, N, lab))
            out, jv = jax.jvp(st, (jnp.asarray(u),), (jnp.asarray(v),))
            want = exact_evolve(ex, jnp, v, lam * dt, D, N)
            sc = 1 + maxabs(want)
            if maxabs(np.asarray(jv) - want) > 1e-10 * sc or maxabs(np.asarray(jv) - np.asarray(st(jnp.asarray(v)))) > 1e-12 * sc:
                run_.violation(dict(key, what="jvp(state) != the linear map"), {"err": maxabs(np.asarray(jv) - want)})
            # the Jacobian is the linear map at EVERY state, the rest state and a state with an identically vanishing part included
            for lab0, s0 in (("zero", np.zeros_like(u)), ("half zero", u * (np.arange(u.size).reshape(u.shape) % 2))):
                jv0 = np.asarray(jax.jvp(st, (jnp.asarray(s0),), (jnp.asarray(v),))[1])
                g0 = np.asarray(jax.vjp(st, jnp.asarray(s0))[1](jnp.asarray(w))[0])
                if maxabs(jv0 - want) > 1e-10 * sc or maxabs(g0 - exact_evolve(ex, jnp, w, np.conj(lam * dt), D, N)) > 1e-10 * (1 + maxabs(w)):
                    run_.violation(dict(key, what=f"jvp / vjp at the {lab0} state != the linear map"), {"err": maxabs(jv0 - want)})
            back = np.asarray(jax.vjp(st, jnp.asarray(u))[1](jnp.asarray(w))[0])
            want_b = exact_evolve(ex, jnp, w, np.conj(lam * dt), D, N)
            if maxabs(back - want_b) > 1e-10 * (1 + maxabs(want_b)):
                run_.violation(dict(key, what="vjp(state) != adjoint map (conjugate symbol)"), {"err": maxabs(back - want_b)})
            if N ** D <= 64:
                J = np.asarray(jax.jacfwd(st)(jnp.asarray(u))).reshape(N ** D, N ** D)
                Jr = np.asarray(jax.jacrev(st)(jnp.asarray(u))).reshape(N ** D, N ** D)
                if maxabs(J @ v.ravel() - want.ravel()) > 1e-10 * sc or maxabs(J - Jr) > 1e-10 * (1 + maxabs(J)):
                    run_.violation(dict(key, what="jacfwd / jacrev"), {"err": maxabs(J - Jr)})
            # d / d dt
            uh = np.asarray(ex.fft(jnp.asarray(u)))

            def f_dt(t, rname=rname, kwj=kwj, D=D, N=N, L=L, u=u):
                return registry.make(rname, D, N, L=L, dt=t, **kwj)(jnp.asarray(u))
            got = np.asarray(jax.jvp(f_dt, (jnp.asarray(dt),), (jnp.asarray(1.0),))[1])
            want = np.asarray(ex.ifft(jnp.asarray(uh * (lam * np.exp(lam * dt))[None]), num_spatial_dims=D, num_points=N))
            if not np.all(np.isfinite(got)) or maxabs(got - want) > 1e-9 * (1 + maxabs(want)):
                run_.violation(dict(key, what="d/d(dt)"), {"err": maxabs(got - want), "scale": maxabs(want)})
            gr = float(jax.grad(lambda t: jnp.sum(f_dt(t) * jnp.asarray(w)))(jnp.asarray(dt)))
            if not np.isfinite(gr) or abs(gr - float(np.sum(want * w))) > 1e-9 * (1 + abs(gr) + np.sum(np.abs(w)) * maxabs(want)):
                run_.violation(dict(key, what="reverse-mode d/d(dt) != <w, exact derivative>"), {"grad": gr, "exact": float(np.sum(want * w))})
            # d / d coefficient: every symbol is linear in the PDE coefficients
            for arg, val in kw.items():
                if isinstance(val, bool) or not isinstance(val, (float, tuple)):
                    continue
                if isinstance(val, float):
                    dpar = {k: (p / val if k[0] == arg else 0.0) for k, p in params.items()}
                    targets = [(arg, dpar, lambda x, arg=arg: {**kwj, arg: x}, val)]
                else:
                    targets = []
                    for j_, a in enumerate(val):
                        dpar = {k: (1.0 if k == ("a", j_, 0) else 0.0) for k in params}
                        targets.append((f"{arg}[{j_}]", dpar, lambda x, arg=arg, j_=j_, val=val: {**kwj, arg: tuple(x if i == j_ else y for i, y in enumerate(val))}, float(a)))
                for nm, dpar, mk, x0 in targets:
                    dlam = linear.symbol_array(D, N, table, dpar, omega)

                    def f_c(x, mk=mk, rname=rname, D=D, N=N, L=L, dt=dt, u=u):
                        return registry.make(rname, D, N, L=L, dt=dt, **mk(x))(jnp.asarray(u))
                    try:
                        got = np.asarray(jax.jvp(f_c, (jnp.asarray(x0),), (jnp.asarray(1.0),))[1])
                    except Exception as e:  # noqa: BLE001
                        run_.violation(dict(key, what=f"d/d({nm}) raised"), {"exception": repr(e)[:300]})
                        continue
                    want = np.asarray(ex.ifft(jnp.asarray(uh * (dt * dlam * np.exp(lam * dt))[None]), num_spatial_dims=D, num_points=N))
                    run_.evaluations += 1
                    if not np.all(np.isfinite(got)) or maxabs(got - want) > 1e-9 * (1 + maxabs(want)):
                        run_.violation(dict(key, what=f"d/d({nm})"), {"err": maxabs(got - want), "scale": maxabs(want)})
                    gr = float(jax.grad(lambda x: jnp.sum(f_c(x) * jnp.asarray(w)))(jnp.asarray(x0)))
                    fw = float(np.sum(want * w))
                    if not np.isfinite(gr) or abs(gr - fw) > 1e-9 * (1 + abs(fw) + np.sum(np.abs(w)) * maxabs(want)):
                        run_.violation(dict(key, what=f"reverse-mode d/d({nm}) != <w, exact derivative>"), {"grad": gr, "exact": fw})


def sweepable(cls):
    """(name, kwargs factory, evaluation point) for every differentiable constructor argument: float arguments at their default (also when
    the default is exactly 0.0: an eigenvalue that vanishes at the evaluation point is where guarded / special-cased code paths sit) and at
    0.5 if the default is zero; coefficient tuples: the zeroth-order entry and the last non-zero entry."""
    out = []
    for k, v in inspect.signature(cls.__init__).parameters.items():
        if k in ("dealiasing_fraction", "circle_radius"):
            continue
        if isinstance(v.default, float):
            mk = (lambda name: (lambda x: {name: x}))(k)
            out.append((k, mk, v.default))
            if v.default == 0.0:
                out.append((k + "@0.5", mk, 0.5))
        elif isinstance(v.default, tuple) and v.default and all(isinstance(x, (int, float)) for x in v.default):
            d = v.default
            nz = [i for i, x in enumerate(d) if x != 0.0]
            # ... and every vanishing odd-order entry: there the eigenvalues are real at the evaluation point while the perturbation is imaginary
            oddzero = {i for i, x in enumerate(d) if i % 2 == 1 and x == 0.0} if "linear" in k else set()
            for i in sorted({0, nz[-1] if nz else len(d) - 1} | oddzero):
                out.append((f"{k}[{i}]" + ("@oddzero" if i in oddzero else ""), (lambda name, d, i: (lambda x: {name: tuple(x if j == i else float(y) for j, y in enumerate(d))}))(k, d, i), float(d[i])))
    return out


def check_semilinear(run_, tab, tables, ex, jnp, jax, rng, tier):
    classes = registry.stepper_classes()
    names = [n for n in sorted(classes) if n not in registry.LINEAR]
    sizes = {1: 12, 2: 6, 3: 6}          # the smallest grids on which the dealiased nonlinear terms are not identically zero (cutoff >= 1)
    for name in names:
        cls = classes[name]
        D = registry.dims_of(name)[0]
        N = sizes[D]
        L, dt = 3.0, 0.02
        orders = (1, 2, 3, 4) if tier != "quick" else ((1, 2, 3, 4)[names.index(name) % 4],)
        for p in orders + ((0,) if tier != "quick" or names.index(name) % 3 == 0 else ()):
            key = {"kind": "semilinear", "cls": name, "D": D, "N": N, "order": p}
            st = registry.make(name, D, N, L=L, dt=dt, order=p)
            C = st.num_channels
            u = rng.standard_normal((C,) + (N,) * D) * 0.5
            v = rng.standard_normal((C,) + (N,) * D)
            w = rng.standard_normal((C,) + (N,) * D)
            ju, jv_, jw = jnp.asarray(u), jnp.asarray(v), jnp.asarray(w)
            run_.case(("semi", name, p))
            # ---- model-derived tangent-linear step: tableau of the specification + exact stencil derivative of the recorded nonlinear function
            oracle = None
            try:
                lam, dte = registry.semi_lambda(name, D, N, tables, L=L, dt=dt)
            except KeyError:
                lam = None
            if lam is not None and p >= 1:
                with etdrk.NonlinRecorder(ex) as rec:
                    uh = np.asarray(ex.fft(ju))
                    np.asarray(st.step_fourier(jnp.asarray(uh)))
                    calls, objs = list(rec.calls), list(rec.objs)
                if len(calls) == p:
                    z = np.broadcast_to(np.asarray(lam) * dte, uh.shape)
                    T = etdrk.Tableau(tab, p, z)
                    dvh = np.asarray(ex.fft(jv_))
                    douts = []
                    for jdx in range(1, p + 1):
                        da = dvh if jdx == 1 else T.stage(jdx - 1, dvh, douts, dte)
                        F = objs[jdx - 1]
                        douts.append(stencil5(lambda a, F=F: F(jnp.asarray(a)), calls[jdx - 1][0], da))
                    dres = T.stage(p, dvh, douts, dte)
                    oracle = np.asarray(ex.ifft(jnp.asarray(dres), num_spatial_dims=D, num_points=N))
            out, jv = jax.jvp(st, (ju,), (jv_,))
            jv = np.asarray(jv)
            if not np.all(np.isfinite(jv)):
                run_.violation(dict(key, what="jvp(state) not finite"), {})
                continue
            # ---- central differences of the primal code (the property's own criterion)
            fdv = fd6(lambda s: st(ju + s * jv_), 0.0, 2e-3)
            sc = 1 + maxabs(fdv)
            if maxabs(jv - fdv) > 2e-8 * sc:
                run_.violation(dict(key, what="jvp(state) vs central differences"), {"err": maxabs(jv - fdv), "scale": sc})
            if oracle is not None:
                run_.evaluations += 1
                if maxabs(jv - oracle) > 1e-8 * (1 + maxabs(oracle)):
                    run_.violation(dict(key, what="jvp(state) vs tangent-linear ETDRK of the specification"), {"err": maxabs(jv - oracle), "scale": maxabs(oracle)})
            elif p >= 1:
                run_.extra.setdefault("no_model_oracle", []).append(f"{name}/{p}")
            # ---- reverse mode is the adjoint of forward mode
            back = np.asarray(jax.vjp(st, ju)[1](jw)[0])
            lhs, rhs = float(np.sum(w * jv)), float(np.sum(back * v))
            if not np.all(np.isfinite(back)) or abs(lhs - rhs) > 1e-9 * (1 + abs(lhs) + np.sum(np.abs(w)) * maxabs(jv)):
                run_.violation(dict(key, what="vjp is not the adjoint of jvp"), {"lhs": lhs, "rhs": rhs})
            # ---- finiteness on the zero state and on a constant state (guarded modes: |k| = 0)
            for lab, s0 in (("zero", jnp.zeros_like(ju)), ("constant", jnp.ones_like(ju) * 0.3)):
                g = jax.grad(lambda x: jnp.sum(st(x) ** 2))(s0)
                t2 = jax.jvp(st, (s0,), (jv_,))[1]
                if not (np.all(np.isfinite(np.asarray(g))) and np.all(np.isfinite(np.asarray(t2)))):
                    run_.violation(dict(key, what=f"derivative not finite on the {lab} state"), {})
                fd0 = fd6(lambda s: st(s0 + s * jv_), 0.0, 2e-3)
                if maxabs(np.asarray(t2) - fd0) > 2e-8 * (1 + maxabs(fd0)):
                    run_.violation(dict(key, what=f"jvp on the {lab} state vs central differences"), {"err": maxabs(np.asarray(t2) - fd0)})
            if p not in (orders[0], 0):
                continue
            # ---- d/d(dt) and d/d(coefficient): against central differences of the primal code
            targets = [("dt", None, dt)] + [(a, mk, x0) for a, mk, x0 in sweepable(cls)]
            if tier == "quick" and len(targets) > 3:        # rotate through the arguments: dt plus two coefficients per class
                r0 = names.index(name) % (len(targets) - 1)
                rest = targets[1:]
                targets = [targets[0]] + [rest[(r0 + i) % len(rest)] for i in range(2)]
                targets += [t for t in rest if t[0].endswith("@oddzero") and t not in targets][:1]
            for nm, mk, x0 in targets:
                def f_p(x, nm=nm, mk=mk):
                    if nm == "dt":
                        return registry.make(name, D, N, L=L, dt=x, order=p)(ju)
                    return registry.make(name, D, N, L=L, dt=dt, order=p, **mk(x))(ju)
                try:
                    got = np.asarray(jax.jvp(f_p, (jnp.asarray(x0),), (jnp.asarray(1.0),))[1])
                    gr = float(jax.grad(lambda x: jnp.sum(f_p(x) * jw))(jnp.asarray(x0)))
                except Exception as e:  # noqa: BLE001
                    run_.violation(dict(key, what=f"d/d({nm}) raised"), {"exception": f"{type(e).__name__}: {str(e)[:200]}"})
                    continue
                h = 1e-3 * abs(x0) if x0 != 0 else 1e-4
                fdp = fd6(f_p, x0, h)
                if x0 == 0:
                    # no natural scale for the step at a vanishing coefficient (a normalized third-order coefficient moves lambda dt by (2 pi k)^3 h):
                    # shrink the step until two successive difference quotients agree - the oracle has to be converged before it judges
                    for _ in range(7):
                        h /= 4
                        nxt = fd6(f_p, x0, h)
                        done = maxabs(nxt - fdp) <= 2e-8 * (1 + maxabs(nxt))
                        fdp = nxt
                        if done:
                            break
                sc = 1 + maxabs(fdp)
                run_.evaluations += 1
                if not np.all(np.isfinite(got)) or maxabs(got - fdp) > 5e-7 * sc:
                    run_.violation(dict(key, what=f"d/d({nm}) vs central differences"), {"err": maxabs(got - fdp), "scale": sc})
                if not np.isfinite(gr) or abs(gr - float(np.sum(got * w))) > 1e-8 * (1 + abs(gr) + np.sum(np.abs(w)) * maxabs(got)):
                    run_.violation(dict(key, what=f"grad wrt {nm} != <w, jvp>"), {"grad": gr, "fwd": float(np.sum(got * w))})
            # ---- through rollouts: tangent of the rollout = composition of per-step tangents; reverse = adjoint
            n = 3
            roll = ex.rollout(st, n)
            tr, ttr = jax.jvp(roll, (ju,), (jv_,))
            x, dx = ju, jv_
            ok = True
            for t in range(n):
                x, dx = jax.jvp(st, (x,), (dx,))
                if maxabs(np.asarray(ttr[t]) - np.asarray(dx)) > 1e-9 * (1 + maxabs(np.asarray(dx))):
                    ok = False
            if not ok or not np.all(np.isfinite(np.asarray(ttr))):
                run_.violation(dict(key, what="jvp through rollout != composed per-step jvp"), {})
            fdr = fd6(lambda s: roll(ju + s * jv_), 0.0, 2e-3)
            if maxabs(np.asarray(ttr) - fdr) > 5e-8 * (1 + maxabs(fdr)):
                run_.violation(dict(key, what="jvp through rollout vs central differences"), {"err": maxabs(np.asarray(ttr) - fdr)})
            W = rng.standard_normal(np.asarray(tr).shape)
            backr = np.asarray(jax.vjp(roll, ju)[1](jnp.asarray(W))[0])
            lhs, rhs = float(np.sum(W * np.asarray(ttr))), float(np.sum(backr * v))
            if not np.all(np.isfinite(backr)) or abs(lhs - rhs) > 1e-9 * (1 + abs(lhs) + np.sum(np.abs(W)) * maxabs(np.asarray(ttr))):
                run_.violation(dict(key, what="vjp through rollout is not the adjoint"), {"lhs": lhs, "rhs": rhs})


NULL_CASES = [
    # (class, D, constructor kwargs, differentiated argument as kwargs factory, evaluation point): an eigenvalue of the linear operator is
    # exactly zero at the evaluation point AND the nonlinear term feeds that mode (non-zero mean of N), for every order
    ("GeneralNonlinearStepper", 1, dict(nonlinear_coefficients=(-0.7, -0.3, 0.1)), lambda x: dict(linear_coefficients=(x, 0.0, 0.02)), 0.0),
    ("GeneralPolynomialStepper", 1, dict(polynomial_coefficients=(0.0, 0.0, -1.0)), lambda x: dict(linear_coefficients=(x, 0.0, 0.02)), 0.0),
    ("GeneralPolynomialStepper", 2, dict(polynomial_coefficients=(0.3, 0.0, -1.0)), lambda x: dict(linear_coefficients=(x, 0.0, 0.02)), 0.0),
    ("AllenCahn", 1, dict(diffusivity=0.02), lambda x: dict(first_order_coefficient=x), 0.0),
    ("FisherKPP", 1, dict(diffusivity=0.02), lambda x: dict(reactivity=x), 0.0),
    ("GrayScott", 1, dict(kill_rate=0.06), lambda x: dict(feed_rate=x), 0.0),
    ("NavierStokesVelocity", 3, dict(diffusivity=0.05), lambda x: dict(drag=x), 0.0),
    ("KuramotoSivashinsky", 1, dict(), lambda x: dict(second_order_scale=x), 0.0),
    ("NormalizedPolynomialStepper", 1, dict(normalized_polynomial_coefficients=(0.0, 0.0, -0.01)), lambda x: dict(normalized_linear_coefficients=(x, 0.0, 1e-5)), 0.0),
]


def check_null_eigenvalues(run_, ex, jnp, jax, rng, tier):
    sizes = {1: 12, 2: 6, 3: 4}
    for ci, (name, D, kw, mk, x0) in enumerate(NULL_CASES):
        if name not in registry.stepper_classes():
            continue
        N = sizes[D]
        for p in ((1, 2, 3, 4) if tier != "quick" else (2, (1, 3, 4)[ci % 3])):
            key = {"kind": "null-eigenvalue", "cls": name, "D": D, "N": N, "order": p}
            run_.case(("null", name, D, p))

            def make(x, name=name, D=D, N=N, p=p, kw=kw, mk=mk):
                return registry.make(name, D, N, L=3.0, dt=0.2, order=p, **{**kw, **mk(x)})
            C = make(x0).num_channels
            u = jnp.asarray(rng.standard_normal((C,) + (N,) * D) * 0.3 + 0.6)
            w = rng.standard_normal((C,) + (N,) * D)
            f = lambda x: make(x)(u)  # noqa: E731
            try:
                fwd = np.asarray(jax.jvp(f, (jnp.asarray(x0),), (jnp.asarray(1.0),))[1])
                gr = float(jax.grad(lambda x: jnp.sum(f(x) * jnp.asarray(w)))(jnp.asarray(x0)))
            except Exception as e:  # noqa: BLE001
                run_.violation(dict(key, what="raised"), {"exception": repr(e)[:300]})
                continue
            fdp = fd6(f, x0, 1e-3)
            sc = 1 + maxabs(fdp)
            if not np.all(np.isfinite(fwd)) or maxabs(fwd - fdp) > 5e-8 * sc:
                run_.violation(dict(key, what="forward-mode coefficient derivative vs central differences at a vanishing eigenvalue"), {"err": maxabs(fwd - fdp), "scale": sc})
            if not np.isfinite(gr) or abs(gr - float(np.sum(fdp * w))) > 5e-8 * (1 + np.sum(np.abs(w)) * maxabs(fdp)):
                run_.violation(dict(key, what="reverse-mode coefficient derivative vs central differences at a vanishing eigenvalue"), {"grad": gr, "fd": float(np.sum(fdp * w))})


def check_wave_and_guards(run_, ex, jnp, jax, rng):
    """Wave: linear 2-channel map with a guarded wavenumber norm; Leray / inverse Laplacian guards at |k| = 0."""
    for D, N in ((1, 12), (2, 6), (3, 4)):
        st = ex.stepper.Wave(D, 3.0, N, 0.05, speed_of_sound=1.3)
        u = rng.standard_normal((2,) + (N,) * D)
        v = rng.standard_normal((2,) + (N,) * D)
        key = {"kind": "wave", "cls": "Wave", "D": D, "N": N}
        run_.case(("wave", D, N))
        for lab, s0 in (("random", u), ("zero", np.zeros_like(u)), ("constant", np.ones_like(u))):
            jv = np.asarray(jax.jvp(st, (jnp.asarray(s0),), (jnp.asarray(v),))[1])
            lin = np.asarray(st(jnp.asarray(v)))
            if not np.all(np.isfinite(jv)) or maxabs(jv - lin) > 1e-11 * (1 + maxabs(lin)):
                run_.violation(dict(key, what=f"jvp(state) != the linear map ({lab} state)"), {"err": maxabs(jv - lin)})
            g = np.asarray(jax.grad(lambda x: jnp.sum(st(x) ** 2))(jnp.asarray(s0)))
            if not np.all(np.isfinite(g)):
                run_.violation(dict(key, what=f"grad not finite ({lab} state)"), {})

        def f_c(c, D=D, N=N, u=u):
            return ex.stepper.Wave(D, 3.0, N, 0.05, speed_of_sound=c)(jnp.asarray(u))
        got = np.asarray(jax.jvp(f_c, (jnp.asarray(1.3),), (jnp.asarray(1.0),))[1])
        fdc = fd6(f_c, 1.3, 1e-3)
        if not np.all(np.isfinite(got)) or maxabs(got - fdc) > 1e-7 * (1 + maxabs(fdc)):
            run_.violation(dict(key, what="d/d(speed_of_sound) vs central differences"), {"err": maxabs(got - fdc)})
        for lab, s0 in (("random", u), ("constant", np.ones_like(u)), ("zero", np.zeros_like(u))):
            W = rng.standard_normal(u.shape)

            def f_cs(c, D=D, N=N, s0=s0):
                return ex.stepper.Wave(D, 3.0, N, 0.05, speed_of_sound=c)(jnp.asarray(s0))
            fwd = np.asarray(jax.jvp(f_cs, (jnp.asarray(1.3),), (jnp.asarray(1.0),))[1])
            gr = float(jax.grad(lambda c: jnp.sum(f_cs(c) * jnp.asarray(W)))(jnp.asarray(1.3)))
            if not np.isfinite(gr) or abs(gr - float(np.sum(fwd * W))) > 1e-9 * (1 + abs(gr) + np.sum(np.abs(W)) * maxabs(fwd)):
                run_.violation(dict(key, what=f"reverse-mode d/d(speed_of_sound) != <w, jvp> ({lab} state)"), {"grad": gr, "fwd": float(np.sum(fwd * W))})
            grr = np.asarray(jax.grad(lambda c: jnp.sum(ex.rollout(ex.stepper.Wave(D, 3.0, N, 0.05, speed_of_sound=c), 3)(jnp.asarray(s0)) ** 2))(jnp.asarray(1.3)))
            if not np.all(np.isfinite(grr)):
                run_.violation(dict(key, what=f"reverse-mode d/d(speed_of_sound) through a rollout not finite ({lab} state)"), {})
    for D, N in ((2, 6), (3, 4)):
        dop = ex.spectral.build_derivative_operator(D, 2.0, N)
        ler = ex.nonlin_fun.Leray(D, N, derivative_operator=dop)

        def g(u, ler=ler, D=D, N=N):
            return ex.ifft(ler(ex.fft(u, num_spatial_dims=D)), num_spatial_dims=D, num_points=N)
        for lab, s0 in (("zero", np.zeros((D,) + (N,) * D)), ("constant", np.ones((D,) + (N,) * D))):
            gr = np.asarray(jax.grad(lambda x: jnp.sum(g(x) ** 2))(jnp.asarray(s0)))
            run_.case(("leray-guard", D, lab))
            if not np.all(np.isfinite(gr)):
                run_.violation({"kind": "guard", "cls": "Leray", "D": D, "what": f"grad not finite on the {lab} state"}, {})


def check_variants(run_, ex, jnp, jax, rng, tier):
    """every argument variant (conservative / single-channel forms, mixed-derivative flags, dealiasing fraction 1) of every semi-linear class in
    every dimension it supports beyond the first: state derivative against central differences of the primal code, reverse = adjoint."""
    classes = registry.stepper_classes()
    names = [n for n in sorted(classes) if n not in registry.LINEAR]
    for name in names:
        for D in registry.dims_of(name):
            N = {1: 12, 2: 6, 3: 6}[D]
            for iv, kw in enumerate(zoo.variants(name, D)):
                if D == registry.dims_of(name)[0] and not kw:
                    continue                      # check_semilinear's case
                if tier == "quick" and D == 3 and (iv + names.index(name)) % 2:
                    continue
                has_order = registry.has_order(classes[name])
                for p in ((1, 2, 3, 4) if tier != "quick" and has_order else ((2 + (iv + D) % 3,) if has_order else (None,))):
                    st = registry.make(name, D, N, L=3.0, dt=0.02, order=p, **kw)
                    C = st.num_channels
                    ju = jnp.asarray(rng.standard_normal((C,) + (N,) * D) * 0.5)
                    v = rng.standard_normal((C,) + (N,) * D)
                    w = rng.standard_normal((C,) + (N,) * D)
                    jv_ = jnp.asarray(v)
                    key = {"kind": "semilinear-variant", "cls": name, "D": D, "order": p, "form": str(sorted(kw.items()))}
                    run_.case(("variant", name, D, p, str(kw)))
                    jv = np.asarray(jax.jvp(st, (ju,), (jv_,))[1])
                    fdv = fd6(lambda s_: st(ju + s_ * jv_), 0.0, 2e-3)
                    sc = 1 + maxabs(fdv)
                    if not np.all(np.isfinite(jv)) or maxabs(jv - fdv) > 2e-8 * sc:
                        run_.violation(dict(key, what="jvp(state) vs central differences"), {"err": maxabs(jv - fdv), "scale": sc})
                    back = np.asarray(jax.vjp(st, ju)[1](jnp.asarray(w))[0])
                    lhs, rhs = float(np.sum(w * jv)), float(np.sum(back * v))
                    if not np.all(np.isfinite(back)) or abs(lhs - rhs) > 1e-9 * (1 + abs(lhs) + np.sum(np.abs(w)) * maxabs(jv)):
                        run_.violation(dict(key, what="vjp is not the adjoint of jvp"), {"lhs": lhs, "rhs": rhs})


def run(tier: str, seed: int) -> int:
    run_ = Run(PID, tier, seed)
    jax = setup_jax(True)
    import jax.numpy as jnp
    import exponax as ex
    rng = np.random.default_rng(seed)
    import time
    tm = {}
    t0 = time.time()
    for label, dn, terms in (QUICK if tier == "quick" else THOROUGH):
        res = run_diff_model(run_, dn, terms, label)
        tm[f"tlc_{label}"] = round(time.time() - t0, 1)
        replay_nonlin(run_, res, ex, jnp, jax, rng)
        tm[f"replay_{label}"] = round(time.time() - t0, 1)
        tlc.cleanup(res)
    tab = etdrk.run_model(run_)
    work = os.path.join(tlc.SCRATCH, f"c07lin.{os.getpid()}")
    os.makedirs(work, exist_ok=True)
    saved = (linear.QUICK_DN, linear.THOR_DN)
    linear.QUICK_DN = linear.THOR_DN = [1012, 1009, 2006, 2005, 3004]
    try:
        lres = linear.run_model(run_, "quick", work, maxj=6, maxt=0)
    finally:
        linear.QUICK_DN, linear.THOR_DN = saved
    tables, _ = linear.load(lres)
    tlc.cleanup(lres)
    shutil.rmtree(work, ignore_errors=True)
    tm["models"] = round(time.time() - t0, 1)
    check_linear(run_, tables, ex, jnp, jax, rng, tier)
    tm["linear"] = round(time.time() - t0, 1)
    check_semilinear(run_, tab, tables, ex, jnp, jax, rng, tier)
    tm["semilinear"] = round(time.time() - t0, 1)
    check_variants(run_, ex, jnp, jax, rng, tier)
    tm["variants"] = round(time.time() - t0, 1)
    check_null_eigenvalues(run_, ex, jnp, jax, rng, tier)
    tm["null"] = round(time.time() - t0, 1)
    check_wave_and_guards(run_, ex, jnp, jax, rng)
    tm["wave"] = round(time.time() - t0, 1)
    run_.extra["cumulative_wall_s"] = tm
    tlc.cleanup_mine()
    run_.rule = ("jvp cases: one per terminal MC_Diff state (term, D, N, primal = sum of basis functions, tangent = basis function); linear cases: (class, "
                 "argument variant, D, N) x {state, dt, every coefficient}; semi-linear cases: (class, order) x {state (tangent-linear ETDRK of the "
                 "specification and central differences), zero / constant states, dt, every coefficient, rollout, reverse mode}")
    run_.assumptions = ["the specification models the maps, not JAX's AD: agreement establishes correct derivatives for the built-in maps only",
                        "nonlinear terms are polynomial: the 5-point stencil is their exact directional derivative (checked by TLC: LinearOK)",
                        "d/d(dt), d/d(coefficient) and rollouts of semi-linear steppers are decided by 6th-order central differences of the primal code in "
                        "float64 (the property's own criterion), tolerance 5e-7 relative; state derivatives additionally by the model-derived oracle, 1e-8"]
    return run_.finish()


def replay(path):
    return run("quick", 0)
