"""C14 rollout, repeat and the wrapper steppers equal the naive loop.

TLC: MC_Rollout (every configuration n x include_init x takes_aux x constant_aux x pytree shape x aux shape, windows
T x sub_len) with the invariants RolloutOK/RepeatOK/WindowsOK/CarryOK/AuxOrderOK and termination.
(A) every terminal state of TLC's state graph is replayed into ex.rollout / ex.repeat / ex.stack_sub_trajectories (eager
    and jitted) with integer arrays, exact comparison incl. shapes and pytree structure.
(B) the real utilities are run with a logging bookkeeping stepper (python-loop scan under jax.disable_jit, and jitted with
    an ordered debug callback); the recorded traces are validated by TLC against Trace_Rollout.
(C) RepeatedStepper / ForcedStepper over every public stepper class and build_ic_set against python loops."""
from __future__ import annotations

import json
import os
import shutil

import numpy as np

from .. import tlc
from ..evidence import Run
from ..num import maxabs, setup_jax
from ..tlaval import iter_dump_states

PID = "C14"
INVS = ["CarryOK", "RolloutOK", "RepeatOK", "WindowsOK", "AuxOrderOK"]


# ----------------------------------------------------------------------------- pytrees of integer arrays
def leaf_arr(jnp, v, j):
    return jnp.full((j + 1,), v, dtype=jnp.int32)


def build_tree(jnp, shape, leaves):
    a = [leaf_arr(jnp, v, j) for j, v in enumerate(leaves)]
    if shape == "leaf":
        return a[0]
    if shape == "pair":
        return (a[0], a[1])
    return {"p": a[0], "q": (a[1], a[2])}


def tree_struct(shape, x):
    """-> list of leaves in canonical order, or None if the structure is not the expected one"""
    try:
        if shape == "leaf":
            return [x] if hasattr(x, "shape") else None
        if shape == "pair":
            return [x[0], x[1]] if isinstance(x, tuple) and len(x) == 2 else None
        if isinstance(x, dict) and set(x) == {"p", "q"} and isinstance(x["q"], tuple) and len(x["q"]) == 2:
            return [x["p"], x["q"][0], x["q"][1]]
    except Exception:  # noqa: BLE001
        return None
    return None


def leaf_value(arr, j, lead=()):
    """arr has shape lead + (j+1,), all entries along the last axis equal -> nested list of ints, else None"""
    a = np.asarray(arr)
    if a.shape != tuple(lead) + (j + 1,):
        return None
    if not np.issubdtype(a.dtype, np.integer):
        return None          # the naive loop of an integer stepper on an integer state yields integers: a changed dtype is a changed result
    if not (a == a[..., :1]).all():
        return None
    return a[..., 0]


def aux_tree(jnp, auxshape, t):
    lv = [10 + t] if auxshape == "leaf" else [10 + t, 2 * t + 1]
    a = [jnp.asarray(v, dtype=jnp.int32) for v in lv]
    return a[0] if auxshape == "leaf" else (a[0], a[1])


def aux_stacked(jnp, auxshape, n):
    cols = [[10 + t for t in range(n)]] if auxshape == "leaf" else [[10 + t for t in range(n)], [2 * t + 1 for t in range(n)]]
    a = [jnp.asarray(c, dtype=jnp.int32).reshape((n,)) for c in cols]
    return a[0] if auxshape == "leaf" else (a[0], a[1])


def make_stepper(jax, jnp, shape, takes_aux, log=None, mode="eager"):
    jtu = jax.tree_util

    def aux_leaves(aux):
        return list(aux) if isinstance(aux, tuple) else [aux]

    def core(u, aux=None):
        leaves, td = jtu.tree_flatten(u)
        if aux is None:
            A = 0
        else:
            al = aux_leaves(aux)
            A = al[0] if len(al) == 1 else al[0] + 7 * al[1]
        new = [3 * lf + A + (j + 1) for j, lf in enumerate(leaves)]
        out = jtu.tree_unflatten(td, new)
        if log is not None:
            ins = [lf[0] for lf in leaves]
            outs = [lf[0] for lf in new]
            al = aux_leaves(aux) if aux is not None else []
            if mode == "eager":
                log(ins, al, outs)
            else:
                jax.debug.callback(lambda i_, a_, o_: log(i_, a_, o_), ins, al, outs, ordered=True)
        return out

    if takes_aux:
        return lambda u, aux: core(u, aux)
    return lambda u: core(u)


# ----------------------------------------------------------------------------- run one configuration in the real library
def run_config(jax, jnp, ex, cfg, mode, record=False):
    """Returns (result dict comparable with the spec's `out`, events)."""
    events = []
    counter = {"i": 0}

    def log(ins, al, outs):
        events.append({"ev": "ScanStep", "i": counter["i"], "u_in": [int(x) for x in ins], "aux": [int(x) for x in al],
                       "u_out": [int(x) for x in outs]})
        counter["i"] += 1

    shape = cfg["shape"]
    nl = {"leaf": 1, "pair": 2, "nested": 3}[shape]
    if cfg["op"] == "windows":
        # trajectory of the bookkeeping stepper without aux, T entries
        T, sl = cfg["T"], cfg["sub_len"]
        u = list(cfg["u0"])
        trj = []
        for _ in range(T):
            u = [3 * v + (j + 1) for j, v in enumerate(u)]
            trj.append(u)
        tree = build_tree(jnp, shape, [0] * nl)
        stacked = [jnp.stack([leaf_arr(jnp, trj[t][j], j) for t in range(T)]) for j in range(nl)]
        tr = stacked[0] if shape == "leaf" else (stacked[0], stacked[1]) if shape == "pair" else {"p": stacked[0], "q": (stacked[1], stacked[2])}
        del tree
        fn = (lambda x: ex.stack_sub_trajectories(x, sl))
        if mode == "jit":
            fn = jax.jit(fn)
        try:
            res = fn(tr)
        except ValueError:
            events.append({"ev": "Rejected"})
            return {"rejected": True}, events
        leaves = tree_struct(shape, res)
        if leaves is None:
            return {"bad_structure": True}, events
        vals = [leaf_value(lf, j, lead=(T - sl + 1, sl)) for j, lf in enumerate(leaves)]
        if any(v is None for v in vals):
            return {"bad_leaf_shape": [list(np.asarray(lf).shape) for lf in leaves]}, events
        out = [[[int(vals[j][w][m]) for j in range(nl)] for m in range(sl)] for w in range(T - sl + 1)]
        events.append({"ev": "Done", "out": out})
        return {"out": out}, events

    n = cfg["n"]
    # with n = 0 the scan body is only traced, never run: log through a callback so that tracing does not fail
    stepper = make_stepper(jax, jnp, shape, cfg["takes_aux"], log=log if record else None,
                           mode=mode if n > 0 else "jit")
    u0 = build_tree(jnp, shape, cfg["u0"])
    kw = dict(takes_aux=cfg["takes_aux"], constant_aux=cfg["constant_aux"])
    if cfg["op"] == "rollout":
        f = ex.rollout(stepper, n, include_init=cfg["include_init"], **kw)
    else:
        f = ex.repeat(stepper, n, **kw)
    args = [u0]
    if cfg["takes_aux"]:
        args.append(aux_tree(jnp, cfg["auxshape"], 0) if cfg["constant_aux"] else aux_stacked(jnp, cfg["auxshape"], n))
    if mode == "jit":
        f = jax.jit(f)
        res = f(*args)
        jax.effects_barrier()
    elif mode == "eager" and n > 0:
        with jax.disable_jit():          # lax.scan becomes a python loop: no compilation, calls observable
            res = f(*args)
    else:
        res = f(*args)
    leaves = tree_struct(shape, res)
    if leaves is None:
        return {"bad_structure": True}, events
    if cfg["op"] == "rollout":
        m = n + (1 if cfg["include_init"] else 0)
        vals = [leaf_value(lf, j, lead=(m,)) for j, lf in enumerate(leaves)]
        if any(v is None for v in vals):
            return {"bad_leaf_shape": [list(np.asarray(lf).shape) for lf in leaves]}, events
        out = [[int(vals[j][t]) for j in range(nl)] for t in range(m)]
    else:
        vals = [leaf_value(lf, j) for j, lf in enumerate(leaves)]
        if any(v is None for v in vals):
            return {"bad_leaf_shape": [list(np.asarray(lf).shape) for lf in leaves]}, events
        out = [[int(vals[j]) for j in range(nl)]]
    events.append({"ev": "Done", "out": out})
    return {"out": out}, events


def cfg_json(c):
    return {"op": c["op"], "n": c["n"], "include_init": c["include_init"], "takes_aux": c["takes_aux"],
            "constant_aux": c["constant_aux"], "shape": c["shape"], "auxshape": c["auxshape"], "u0": list(c["u0"]),
            "T": c["T"], "sub_len": c["sub_len"]}


def spec_out(st):
    o = st["out"]
    return [[list(x) if not isinstance(x, int) else x for x in e] for e in o] if o else []


def to_lists(x):
    if isinstance(x, tuple):
        return [to_lists(v) for v in x]
    return x


# ----------------------------------------------------------------------------- validate traces with TLC
def validate_traces(run, traces, consts, label):
    """-> list of (accepted, longest_prefix) per trace"""
    work = os.path.join(tlc.SCRATCH, f"c14tr.{os.getpid()}.{label}")
    os.makedirs(work, exist_ok=True)
    tf = os.path.join(work, "traces.json")
    json.dump(traces, open(tf, "w"))
    cfgp = os.path.join(work, "Trace_Rollout.cfg")
    tlc.write_cfg(cfgp, spec="TSpec", constants=consts, invariants=["TInv"])
    res = tlc.run_tlc("Trace_Rollout", cfgp, workers=1, dump=True, env={"TRACE_FILE": tf}, timeout=1200, tag="Trace_Rollout")
    run.add_tlc(res, "Trace_Rollout/" + label)
    best = {}
    done = {}
    for st in iter_dump_states(res.dump):
        t = st["tid"]
        best[t] = max(best.get(t, 0), st["l"])
        if st["pc"] in ("done", "rejected"):
            done[t] = max(done.get(t, 0), st["l"])
    out = []
    for k, tr in enumerate(traces, start=1):
        ln = len(tr["events"])
        out.append((done.get(k, 0) == ln + 1, best.get(k, 1) - 1))
    if not res.ok:
        run.violation({"kind": "trace-spec-invariant", "invariant": res.violated}, {"trace": res.trace_text})
    tlc.cleanup(res)
    shutil.rmtree(work, ignore_errors=True)
    return out


# ----------------------------------------------------------------------------- wrappers over real steppers
def check_wrappers(run, jax, jnp, ex, rng, tier):
    from .. import registry
    classes = registry.stepper_classes()
    ms = (1, 3) if tier == "quick" else (1, 2, 3, 5)
    for name in sorted(classes):
        for D in registry.dims_of(name):
            if tier == "quick" and D != registry.dims_of(name)[0]:
                continue
            for N in (((9, 8) if D < 3 else (6,)) if tier != "quick" else ((8,) if D < 3 else (6,))):
                try:
                    st = registry.make(name, D, N, L=2.0, dt=0.02)
                except Exception as e:  # noqa: BLE001
                    run.extra.setdefault("uncovered", []).append(f"{name} D={D}: {repr(e)[:80]}")
                    continue
                C = st.num_channels
                u = rng.standard_normal((C,) + (N,) * D)
                # Nyquist-free state (RepeatedStepper never leaves Fourier space between sub-steps)
                uh = np.asarray(ex.fft(jnp.asarray(u)))
                mask = np.asarray(ex.spectral.oddball_filter_mask(D, N))
                u = np.asarray(ex.ifft(jnp.asarray(uh * mask), num_spatial_dims=D, num_points=N)) * 0.3
                uj = jnp.asarray(u)
                for m in ms:
                    run.case(("repeated", name, D, N, m))
                    rs = ex.RepeatedStepper(st, m)
                    got = np.asarray(rs(uj))
                    want = uj
                    for _ in range(m):
                        want = st(want)
                    want = np.asarray(want)
                    scale = 1 + maxabs(want)
                    key = {"kind": "RepeatedStepper", "cls": name, "D": D, "N": N, "m": m}
                    if got.shape != want.shape or maxabs(got - want) > 1e-9 * scale:
                        run.violation(key, {"err": maxabs(got - want) if got.shape == want.shape else "shape"})
                    if abs(rs.dt - m * st.dt) > 1e-12 or rs.num_channels != C or rs.num_points != N or rs.num_spatial_dims != D:
                        run.violation(dict(key, what="attributes"), {"dt": rs.dt})
                    # Fourier-space entry point
                    gh = np.asarray(rs.step_fourier(ex.fft(uj)))
                    wh = ex.fft(uj)
                    for _ in range(m):
                        wh = st.step_fourier(wh)
                    if maxabs(gh - np.asarray(wh)) > 1e-9 * (1 + maxabs(wh)):
                        run.violation(dict(key, what="step_fourier"), {})
                # states WITH Nyquist content: the specification (MC_Rollout.SubStep / Layout.Realify) says sub-stepping in Fourier space equals
                # physical stepping whenever the multiplier is real on the self-conjugate lines, i.e. for every class whose linear symbol has
                # even orders only (the nonlinear terms never see the Nyquist mode: it is removed by the dealiasing)
                from .. import zoo
                if name not in zoo.ODD_ORDER_LINEAR:
                    uw = jnp.asarray(rng.standard_normal((C,) + (N,) * D) * 0.3)
                    for m in ms[:2]:
                        run.case(("repeated-nyquist", name, D, N, m))
                        got = np.asarray(ex.RepeatedStepper(st, m)(uw))
                        want = uw
                        for _ in range(m):
                            want = st(want)
                        want = np.asarray(want)
                        if got.shape != want.shape or maxabs(got - want) > 1e-9 * (1 + maxabs(want)):
                            run.violation({"kind": "RepeatedStepper", "cls": name, "D": D, "N": N, "m": m, "what": "state with Nyquist content"},
                                          {"err": maxabs(got - want) if got.shape == want.shape else "shape"})
                # ForcedStepper
                run.case(("forced", name, D, N))
                f = rng.standard_normal(u.shape) * 0.5
                fs = ex.ForcedStepper(st)
                key = {"kind": "ForcedStepper", "cls": name, "D": D, "N": N}
                got = np.asarray(fs(uj, jnp.asarray(f)))
                want = np.asarray(st(uj + st.dt * jnp.asarray(f)))
                if maxabs(got - want) > 1e-10 * (1 + maxabs(want)):
                    run.violation(dict(key, what="u+dt*f"), {"err": maxabs(got - want)})
                got0 = np.asarray(fs(uj, jnp.zeros_like(uj)))
                if maxabs(got0 - np.asarray(st(uj))) > 1e-12 * (1 + maxabs(got0)):
                    run.violation(dict(key, what="zero forcing"), {})
                gh = np.asarray(fs.step_fourier(ex.fft(uj), ex.fft(jnp.asarray(f))))
                wh = np.asarray(st.step_fourier(ex.fft(uj) + st.dt * ex.fft(jnp.asarray(f))))
                if maxabs(gh - wh) > 1e-9 * (1 + maxabs(wh)):
                    run.violation(dict(key, what="step_fourier"), {})
                # the wrappers compose: a forced repeated stepper is the repeated stepper applied to the Euler-forced state (one kick with the
                # effective time step m*dt), and a repeated forced stepper is m forced steps
                for m in (2, 3):
                    rs = ex.RepeatedStepper(st, m)
                    got = np.asarray(ex.ForcedStepper(rs)(uj, jnp.asarray(f)))
                    want = np.asarray(rs(uj + rs.dt * jnp.asarray(f)))
                    if got.shape != want.shape or maxabs(got - want) > 1e-9 * (1 + maxabs(want)):
                        run.violation(dict(key, what=f"ForcedStepper(RepeatedStepper(., {m})) != RepeatedStepper(u + m dt f)"), {"err": maxabs(got - want)})
                    gh = np.asarray(ex.ForcedStepper(rs).step_fourier(ex.fft(uj), ex.fft(jnp.asarray(f))))
                    wh = np.asarray(rs.step_fourier(ex.fft(uj) + rs.dt * ex.fft(jnp.asarray(f))))
                    if maxabs(gh - wh) > 1e-9 * (1 + maxabs(wh)):
                        run.violation(dict(key, what=f"ForcedStepper(RepeatedStepper(., {m})).step_fourier"), {})


def check_dtypes(run, jax, jnp, ex):
    """rollout / repeat leave the dtype of every leaf alone (complex Fourier-space states, integer counters, mixed pytrees), as the naive
    loop does, for every flag combination."""
    # the integer leaves hold values no narrower float can represent (2^24 + 1 in int32, 2^31 + ... in uint32, 2^53 + 1 in int64): a utility that
    # moves the leaves of a mixed pytree through a common buffer changes them
    def step(s):
        return {"u": s["u"] * (0.5 + 0.25j) if jnp.iscomplexobj(s["u"]) else s["u"] * 0.5, "step": s["step"] + 1,
                "key": s["key"] * jnp.uint32(3) + jnp.uint32(1), "big": s["big"] + 2}
    LEAVES = ("u", "step", "key", "big")
    for udt in (jnp.complex128, jnp.float64, jnp.float32, jnp.complex64):
        s0 = {"u": jnp.arange(1, 4).astype(udt), "step": jnp.asarray(2 ** 24 + 1, dtype=jnp.int32),
              "key": jnp.asarray([2 ** 31 + 12345, 7], dtype=jnp.uint32), "big": jnp.asarray(2 ** 53 + 1, dtype=jnp.int64)}
        for n in (0, 1, 3):
            for init in (False, True):
                run.case(("dtype", str(udt), n, init))
                key = {"kind": "dtype", "what": f"rollout n={n} include_init={init} dtype={jnp.dtype(udt).name}"}
                try:
                    trj = ex.rollout(step, n, include_init=init)(s0)
                    fin = ex.repeat(step, n)(s0)
                except Exception as e:  # noqa: BLE001
                    run.violation(dict(key, mode="raised"), {"exception": repr(e)[:300]})
                    continue
                want, cur = ([s0] if init else []), s0
                for _ in range(n):
                    cur = step(cur)
                    want.append(cur)
                for leaf in LEAVES:
                    got = np.asarray(trj[leaf])
                    ref = np.stack([np.asarray(w[leaf]) for w in want]) if want else np.zeros((0,) + np.asarray(s0[leaf]).shape, dtype=np.asarray(s0[leaf]).dtype)
                    if got.dtype != ref.dtype or got.shape != ref.shape or not np.array_equal(got, ref):
                        run.violation(dict(key, mode=f"rollout leaf {leaf}"), {"got_dtype": str(got.dtype), "want_dtype": str(ref.dtype), "shape": list(got.shape)})
                    gf = np.asarray(fin[leaf])
                    if gf.dtype != np.asarray(cur[leaf]).dtype or not np.array_equal(gf, np.asarray(cur[leaf])):
                        run.violation(dict(key, mode=f"repeat leaf {leaf}"), {"got_dtype": str(gf.dtype)})
                # windows of the mixed trajectory: every leaf, every window length, value and dtype exactly as the contiguous slices
                T = n + (1 if init else 0)
                for sl in range(1, T + 1):
                    run.case(("dtype-windows", str(udt), n, init, sl))
                    try:
                        win = ex.stack_sub_trajectories(trj, sl)
                    except Exception as e:  # noqa: BLE001
                        run.violation(dict(key, mode="stack_sub_trajectories raised", sub_len=sl), {"exception": repr(e)[:300]})
                        continue
                    for leaf in LEAVES:
                        full = np.stack([np.asarray(w[leaf]) for w in want])
                        ref = np.stack([full[i:i + sl] for i in range(T - sl + 1)])
                        got = np.asarray(win[leaf])
                        if got.dtype != ref.dtype or got.shape != ref.shape or not np.array_equal(got, ref):
                            run.violation(dict(key, mode=f"windows leaf {leaf}", sub_len=sl), {"got_dtype": str(got.dtype), "want_dtype": str(ref.dtype), "shape": list(got.shape)})


def check_long_horizons(run, jnp, ex):
    """The number of applications is n for every n, not only the small ones the machine enumerates: a counting stepper (u -> 2u + 1 mod p,
    injective on residues) over long horizons, autonomous and with auxiliary input, eager and through RepeatedStepper's dt bookkeeping."""
    P = 1000003

    def step(u):
        return (2 * u + 1) % P

    def step_aux(u, a):
        return (2 * u + a) % P
    for n in (97, 99, 100, 101, 110, 120, 132, 143, 144, 255, 256, 257, 1000):
        want = 5
        for _ in range(n):
            want = (2 * want + 1) % P
        run.case(("long", n))
        got = int(ex.repeat(step, n)(jnp.asarray(5, dtype=jnp.int64)))
        got_aux = int(ex.repeat(step_aux, n, takes_aux=True, constant_aux=True)(jnp.asarray(5, dtype=jnp.int64), jnp.asarray(1, dtype=jnp.int64)))
        trj = np.asarray(ex.rollout(step, n, include_init=True)(jnp.asarray(5, dtype=jnp.int64)))
        if got != want or got_aux != want or trj.shape != (n + 1,) or int(trj[-1]) != want or int(trj[0]) != 5:
            run.violation({"kind": "long-horizon", "what": f"n={n}"}, {"repeat": got, "repeat_aux": got_aux, "rollout_last": int(trj[-1]) if trj.size else None,
                                                                         "rollout_len": list(trj.shape), "want": want})
    # nested wrappers: the effective time step multiplies through every level, and a forced nested wrapper kicks with it
    st = ex.stepper.Diffusion(1, 2.0, 16, 0.1, diffusivity=0.05)
    for m, n in ((2, 3), (3, 2), (1, 4), (4, 1)):
        inner = ex.RepeatedStepper(st, m)
        outer = ex.RepeatedStepper(inner, n)
        run.case(("nested", m, n))
        u = jnp.asarray(np.cos(np.arange(16) * 2 * np.pi / 16)[None] + 0.3)
        f = jnp.asarray(np.sin(np.arange(16) * 4 * np.pi / 16)[None])
        want = u
        for _ in range(m * n):
            want = st(want)
        key = {"kind": "RepeatedStepper", "cls": "Diffusion", "D": 1, "N": 16, "m": f"{m}x{n}", "what": "nested"}
        if abs(outer.dt - m * n * st.dt) > 1e-12 or maxabs(np.asarray(outer(u)) - np.asarray(want)) > 1e-12:
            run.violation(key, {"dt": float(outer.dt), "want_dt": m * n * st.dt})
        got = np.asarray(ex.ForcedStepper(outer)(u, f))
        wantf = u + m * n * st.dt * f
        for _ in range(m * n):
            wantf = st(wantf)
        if maxabs(got - np.asarray(wantf)) > 1e-12:
            run.violation(dict(key, what="ForcedStepper around nested wrappers"), {"err": maxabs(got - np.asarray(wantf))})


def check_ic_set(run, jax, jnp, ex):
    import jax.random as jr
    for D, N in ((1, 16), (2, 8)):
        gen = ex.ic.RandomTruncatedFourierSeries(D, cutoff=3)
        for S in (0, 1, 3):
            run.case(("build_ic_set", D, S))
            key = jr.PRNGKey(7)
            got = np.asarray(ex.build_ic_set(gen, num_points=N, num_samples=S, key=key))
            k = key
            want = []
            for _ in range(S):
                k, sub = jr.split(k)
                want.append(np.asarray(gen(N, key=sub)))
            ok = got.shape == (S, 1) + (N,) * D and all(maxabs(got[i] - want[i]) < 1e-12 for i in range(S))
            if not ok:
                run.violation({"kind": "build_ic_set", "D": D, "S": S}, {"shape": list(got.shape)})


def run(tier: str, seed: int) -> int:
    run_ = Run(PID, tier, seed)
    jax = setup_jax(True)
    import jax.numpy as jnp
    import exponax as ex
    rng = np.random.default_rng(seed)
    consts = {"MaxN": 3, "MaxT": 4} if tier == "quick" else {"MaxN": 6, "MaxT": 7}

    def jit_too(c):
        if tier != "quick":
            return True
        return (c["u0"][0] == 2 and c["n"] in (0, 1, consts["MaxN"])) if c["op"] != "windows" else c["T"] in (2, consts["MaxT"])
    work = os.path.join(tlc.SCRATCH, f"c14.{os.getpid()}")
    os.makedirs(work, exist_ok=True)
    cfgp = os.path.join(work, "MC_Rollout.cfg")
    tlc.write_cfg(cfgp, spec="Spec", constants=consts, invariants=INVS, properties=["Termination"])
    res = tlc.run_tlc("MC_Rollout", cfgp, workers=8, dump=True, timeout=1800)
    run_.add_tlc(res, "MC_Rollout")
    if not res.ok:
        run_.violation({"kind": "spec", "invariant": res.violated}, {"trace": res.trace_text})
    terminal = [st for st in iter_dump_states(res.dump) if st["pc"] in ("done", "rejected")]
    tlc.cleanup(res)
    import time as _t
    _t0 = _t.time()
    # (A) replay
    nrep = 0
    for st in terminal:
        c = st["cfg"]
        for mode in (("eager", "jit") if jit_too(c) else ("eager",)):
            nrep += 1
            run_.case(("replay", json.dumps(cfg_json(c), sort_keys=True), mode))
            try:
                got, _ = run_config(jax, jnp, ex, c, mode)
            except Exception as e:  # noqa: BLE001
                got = {"exception": repr(e)[:300]}
            want = {"rejected": True} if st["pc"] == "rejected" else {"out": to_lists(st["out"])}
            if got != want:
                run_.violation(dict(cfg_json(c), kind="replay", mode=mode), {"got": got, "want": want})
        run_.sample({"cfg": cfg_json(c), "spec_out": to_lists(st["out"])}, limit=3)
    run_.traces += nrep
    run_.extra['t_replay'] = round(_t.time() - _t0, 1); _t0 = _t.time()
    # (B) record traces from the real code and validate with TLC
    traces, meta = [], []
    for st in terminal:
        c = st["cfg"]
        for mode in (("eager", "jit") if c["op"] != "windows" and jit_too(c) else ("eager",)):
            try:
                _, ev = run_config(jax, jnp, ex, c, mode, record=True)
            except Exception as e:  # noqa: BLE001
                ev = [{"ev": "Exception", "what": repr(e)[:200]}]
            traces.append({"cfg": cfg_json(c), "events": ev})
            meta.append((cfg_json(c), mode))
    verdicts = validate_traces(run_, traces, consts, "main")
    for (acc, pref), (cj, mode), tr in zip(verdicts, meta, traces):
        run_.case(("trace", json.dumps(cj, sort_keys=True), mode))
        if not acc:
            nxt = tr["events"][pref] if pref < len(tr["events"]) else None
            run_.violation(dict(cj, kind="trace", mode=mode), {"accepted_prefix": pref, "next_event": nxt, "events": tr["events"][:12]})
    run_.traces += len(traces)
    run_.sample({"trace": traces[len(traces) // 2]}, limit=4)
    # binding self-test: a corrupted trace must be rejected
    import copy
    bad = []
    for tr in traces:
        if tr["cfg"]["op"] == "rollout" and tr["cfg"]["n"] >= 2 and tr["cfg"]["takes_aux"] and not tr["cfg"]["constant_aux"]:
            t1 = copy.deepcopy(tr)
            t1["events"][1]["aux"] = tr["events"][0]["aux"]      # aux consumed out of order
            t2 = copy.deepcopy(tr)
            del t2["events"][0]                                  # a dropped call
            t3 = copy.deepcopy(tr)
            t3["events"][-1]["out"] = list(reversed(t3["events"][-1]["out"]))
            bad += [t1, t2, t3]
            break
    vb = validate_traces(run_, bad, consts, "selftest")
    if any(acc for acc, _ in vb) or not bad:
        raise RuntimeError("binding self-test failed: a corrupted trace was accepted")
    run_.extra["selftest_corrupted_traces_rejected"] = len(bad)
    run_.extra['t_traces'] = round(_t.time() - _t0, 1); _t0 = _t.time()
    # (C) wrappers
    check_wrappers(run_, jax, jnp, ex, rng, tier)
    check_ic_set(run_, jax, jnp, ex)
    check_dtypes(run_, jax, jnp, ex)
    check_long_horizons(run_, jnp, ex)
    run_.extra['t_wrappers'] = round(_t.time() - _t0, 1)
    run_.rule = ("replay: one case per terminal TLC state (configuration) x {eager, jit}; trace: one recorded execution per configuration "
                 "x {python-loop scan, jitted with ordered callback}; wrappers: (class, D, N, m); distinct = distinct case key")
    run_.exhaustive = True
    run_.assumptions = ["integer bookkeeping stepper 3v+A+j is injective in order/aux/leaf", "jax.disable_jit turns lax.scan into a python loop",
                        "ordered jax.debug.callback preserves call order"]
    shutil.rmtree(work, ignore_errors=True)
    # hook events recorded by the library itself (this process and the repository's own tests run with EXPONAX_VERIF=1), validated by
    # TLC against spec/Trace_Hooks.tla: Trajectory, Windows
    from .. import hooktrace as _ht
    _ht.check(run_, PID, ['Trajectory', 'Windows'], ['tests/test_utils.py', 'tests/test_substack_trjs.py', 'tests/test_repeated_stepper.py', 'tests/test_forced_stepper.py'], {'ev': 'Trajectory', 'op': 'rollout', 'n': 3, 'include_init': True, 'lead': [3], 'struct_same': True, 'outcome': 'returned'})
    # the composed machine (spec/Session.tla): multi-step API sessions generated by TLC -simulate, replayed call by call; this check
    # reports the mismatches of the operations it owns (advectn)
    from .. import session
    import jax.numpy as _jnp
    import exponax as _ex
    session.run_for(run_, tier, seed, _ex, _jnp, ['advectn'], PID)
    from .. import sessiontrace   # the other direction: driver-chosen sessions executed by the library, every returned state validated by TLC (Trace_Session.tla)
    sessiontrace.run_for(run_, tier, seed, _ex, _jnp, ['advectn'], PID)
    return run_.finish()


def replay(path):
    return run("quick", 0)
