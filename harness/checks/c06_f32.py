"""Child of the C06 check, default (float32) session: a stepper constructed under a trace (eqx.filter_vmap over a constructor argument, construction
inside eqx.filter_jit) steps like the same stepper constructed eagerly - on configurations whose linear operator is stiff or strongly oscillatory
(|dt lambda| up to 1e4), where any difference in HOW the constructor evaluates exp(dt L) shows far above float32 rounding of the step itself."""
from __future__ import annotations

import json
import os
import sys

import numpy as np


def main():
    os.environ["JAX_PLATFORMS"] = "cpu"
    import jax
    import jax.numpy as jnp
    import equinox as eqx
    import exponax as ex
    G = ex.stepper.generic
    cases = [("Dispersion", lambda x: ex.stepper.Dispersion(1, 1.0, 64, 0.05, dispersivity=x), [0.5, 1.0, 2.0], 1, 64, 1),
             ("Dispersion-2d", lambda x: ex.stepper.Dispersion(2, 1.0, 16, 0.05, dispersivity=x), [0.7, 1.5], 1, 16, 2),
             ("Advection", lambda x: ex.stepper.Advection(1, 1.0, 64, 10.0, velocity=x), [1.0, 3.3], 1, 64, 1),
             ("Diffusion", lambda x: ex.stepper.Diffusion(1, 1.0, 64, 0.1, diffusivity=x), [0.01, 0.5], 1, 64, 1),
             ("KortewegDeVries", lambda x: ex.stepper.KortewegDeVries(1, 2.0, 48, 0.01, dispersivity=x), [1.0, 2.5], 1, 48, 1),
             ("GeneralLinearStepper", lambda x: G.GeneralLinearStepper(1, 1.0, 64, 0.02, linear_coefficients=(0.0, 0.0, 0.001, x)), [1.0, -2.0], 1, 64, 1),
             ("Burgers", lambda x: ex.stepper.Burgers(1, 1.0, 64, 0.5, diffusivity=x), [0.05, 0.3], 1, 64, 1),
             ("Wave", lambda x: ex.stepper.Wave(1, 1.0, 64, 5.0, speed_of_sound=x), [1.0, 2.0], 2, 64, 1)]
    out = []
    rng = np.random.default_rng(5)
    for name, mk, xs, C, N, D in cases:
        u = jnp.asarray(rng.standard_normal((C,) + (N,) * D).astype(np.float32))
        rec = {"cls": name}
        try:
            eager = np.stack([np.asarray(mk(x)(u), dtype=np.float64) for x in xs])
            vm = np.asarray(eqx.filter_vmap(lambda x: mk(x)(u))(jnp.asarray(xs, dtype=jnp.float32)), dtype=np.float64)
            jt = np.stack([np.asarray(eqx.filter_jit(lambda x: mk(x)(u))(jnp.asarray(x, dtype=jnp.float32)), dtype=np.float64) for x in xs])
            sc = 1.0 + float(np.max(np.abs(eager)))
            rec.update(vmap_rel=float(np.max(np.abs(vm - eager))) / sc, jit_rel=float(np.max(np.abs(jt - eager))) / sc, finite=bool(np.isfinite(eager).all()))
        except Exception as e:  # noqa: BLE001
            rec["error"] = f"{type(e).__name__}: {str(e)[:300]}"
        out.append(rec)
    json.dump(out, open(os.environ["VERIF_C06_OUT"], "w"))


if __name__ == "__main__":
    sys.exit(main())
