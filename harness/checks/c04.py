"""C04 Grid, FFT and Fourier-coefficient conventions are mutually consistent.

TLC: MC_Layout (every stored index of every (D,N): wavenumber, partner, weights, three scalings, masks, blocks,
bins, ifft of a unit entry) and MC_Fft (every real basis function incl. aliases: forward image, round trip,
Parseval).  Conformance: every table entry and every basis image replayed into the real library."""
from __future__ import annotations

import json
import os

import numpy as np

from .. import tlc
from ..evidence import Run
from ..num import all_idx, as_map, cq, dense_half, grid_np, maxabs, setup_jax, synth, wshape
from ..tlaval import iter_dump_states

PID = "C04"

QUICK_LAYOUT = [1000 + n for n in list(range(3, 19)) + [24, 25, 32, 49, 64, 98]] + [2000 + n for n in range(3, 13)] + [3000 + n for n in range(3, 7)]
THOR_LAYOUT = [1000 + n for n in range(3, 131)] + [1161, 1187, 1196, 1197] + [2000 + n for n in list(range(3, 17)) + [49]] + [3000 + n for n in range(3, 9)]
QUICK_FFT = [1000 + n for n in list(range(3, 14)) + [16, 17]] + [2000 + n for n in range(3, 9)] + [3003, 3004, 3005]
THOR_FFT = [1000 + n for n in list(range(3, 34)) + [49, 64, 98]] + [2000 + n for n in range(3, 13)] + [3000 + n for n in range(3, 7)]

LAYOUT_INVS = ["TypeOK", "ConjOK", "StoreOK", "DofCount", "ScalingOK", "MaskOK", "BinOK", "BlocksOK", "UnitOK"]
FFT_INVS = ["SupportOK", "NonTrivial", "ValueOK", "RoundTripOK", "ParsevalOK"]


def setlit(xs):
    return "{" + ",".join(str(x) for x in xs) + "}"


def run_models(run: Run, tier: str, workdir: str):
    lay = QUICK_LAYOUT if tier == "quick" else THOR_LAYOUT
    ff = QUICK_FFT if tier == "quick" else THOR_FFT
    c1 = os.path.join(workdir, "MC_Layout.cfg")
    tlc.write_cfg(c1, constants={"DNSet": setlit(lay)}, invariants=LAYOUT_INVS)
    r1 = tlc.run_tlc("MC_Layout", c1, workers=16, dump=True, timeout=1800)
    run.add_tlc(r1, "MC_Layout")
    c2 = os.path.join(workdir, "MC_Fft.cfg")
    tlc.write_cfg(c2, constants={"DNSet": setlit(ff), "AliasShifts": 1}, invariants=FFT_INVS, properties=["AliasInvariant"])
    r2 = tlc.run_tlc("MC_Fft", c2, workers=16, dump=True, timeout=3000)
    run.add_tlc(r2, "MC_Fft")
    for r in (r1, r2):
        if not r.ok:
            run.violation({"kind": "spec", "invariant": r.violated}, {"trace": r.trace_text})
    return r1, r2


def check_tables(run: Run, rows: dict, ex, jnp, session: str):
    """rows: {(D,N): {s: row}}"""
    sp = ex.spectral
    for (D, N), tab in sorted(rows.items()):
        ws = wshape(D, N)
        key0 = {"kind": "table", "D": D, "N": N, "session": session}

        def bad(what, **kw):
            run.violation(dict(key0, what=what, **{k: v for k, v in kw.items() if k in ("indexing", "mode", "cutoff", "axis_separate", "m")}),
                          dict(kw))

        run.case(("table", D, N, session))
        if tuple(sp.wavenumber_shape(D, N)) != ws or tuple(sp.spatial_shape(D, N)) != (N,) * D:
            bad("shape helpers")
        exp_k = np.zeros((D,) + ws)
        exp_den = {m: np.zeros(ws) for m in ("den_norm", "den_recon", "den_coef")}
        exp_odd = np.zeros(ws, bool)
        boxmin = np.zeros(ws, int)
        sqk = np.zeros(ws, int)
        for s, r in tab.items():
            for d in range(D):
                exp_k[(d,) + s] = r["k"][d]
            for m in exp_den:
                exp_den[m][s] = r[m]
            exp_odd[s] = r["oddball"]
            boxmin[s] = r["boxmin"]
            sqk[s] = r["sqk"]
        perm = list(range(D))
        if D >= 2:
            perm[0], perm[1] = 1, 0
        for indexing in ("ij", "xy"):
            try:
                wn = np.asarray(sp.build_wavenumbers(D, N, indexing=indexing))
                want = exp_k if indexing == "ij" else exp_k[perm]
                if wn.shape != want.shape:
                    bad("build_wavenumbers shape", indexing=indexing, got=list(wn.shape), want=list(want.shape))
                elif maxabs(wn - want) > 1e-6:
                    bad("build_wavenumbers values", indexing=indexing, err=maxabs(wn - want))
                for mode, dn in (("norm_compensation", "den_norm"), ("reconstruction", "den_recon"), ("coef_extraction", "den_coef")):
                    sc = np.asarray(sp.build_scaling_array(D, N, mode=mode, indexing=indexing))
                    want = (float(N) ** D / exp_den[dn])[None]
                    if sc.shape != want.shape:
                        bad("build_scaling_array shape", indexing=indexing, mode=mode, got=list(sc.shape), want=list(want.shape))
                    elif maxabs(sc / want - 1) > 1e-6:
                        bad("build_scaling_array values", indexing=indexing, mode=mode, err=maxabs(sc / want - 1))
                # grid: x_j = j L / N, channel c varies along array axis perm(c) under xy
                L = 2.5
                g = np.asarray(ex.make_grid(D, L, N, indexing=indexing))
                gw = grid_np(D, N, L)
                gw = gw if indexing == "ij" else gw[perm]
                if g.shape != gw.shape or maxabs(g - gw) > 1e-5 * L:
                    bad("make_grid", indexing=indexing)
            except Exception as e:  # noqa: BLE001
                bad("exception", indexing=indexing, exc=repr(e)[:200])
        # masks (exact)
        odd = np.asarray(sp.oddball_filter_mask(D, N))
        if odd.shape != (1,) + ws or (odd[0] != exp_odd).any():
            bad("oddball_filter_mask", n_diff=int((odd[0] != exp_odd).sum()) if odd.shape == (1,) + ws else -1)
        for c in range(0, N // 2 + 2):
            for sep in (True, False):
                mk = np.asarray(sp.low_pass_filter_mask(D, N, cutoff=c, axis_separate=sep))
                want = (boxmin <= c) if sep else (sqk <= c * c)
                if mk.shape != (1,) + ws or (mk[0] != want).any():
                    bad("low_pass_filter_mask", cutoff=c, axis_separate=sep,
                        n_diff=int((mk[0] != want).sum()) if mk.shape == (1,) + ws else -1)
        # mode blocks
        for m in range(2, N + 1):
            cnt = np.zeros((1,) + ws, int)
            try:
                for sl in sp.get_modes_slices(D, m):
                    z = np.zeros((1,) + ws, int)
                    z[sl] = 1
                    cnt += z
            except Exception as e:  # noqa: BLE001
                bad("get_modes_slices exception", m=m, exc=repr(e)[:200])
                continue
            want = np.zeros(ws, int)
            for s, r in tab.items():
                want[s] = 1 if m in r["blocks"] else 0
            if (cnt[0] != want).any():
                bad("get_modes_slices", m=m, n_diff=int((cnt[0] != want).sum()))
        # full / zero-centred grids and wrap_bc
        L = 3.0
        g = np.asarray(ex.make_grid(D, L, N, full=True))
        if g.shape != (D,) + (N + 1,) * D or abs(g.max() - L) > 1e-5 or abs(g.min()) > 1e-7:
            bad("make_grid full")
        gz = np.asarray(ex.make_grid(D, L, N, zero_centered=True))
        if maxabs(gz - (grid_np(D, N, L) - L / 2)) > 1e-5:
            bad("make_grid zero_centered")
        u = np.arange(2 * N ** D, dtype=float).reshape((2,) + (N,) * D)
        w = np.asarray(ex.wrap_bc(jnp.asarray(u)))
        ok = w.shape == (2,) + (N + 1,) * D
        if ok:
            idx = np.ix_(*([np.arange(2)] + [np.arange(N + 1) % N] * D))
            ok = (w == u[idx]).all()
        if not ok:
            bad("wrap_bc")


def check_grids(run: Run, ex, session: str, tier: str):
    """x_j = j L / N, exactly N points (left-inclusive, right-exclusive), for a dense set of (N, L)."""
    Ls = (1.0, 2 * np.pi, 3.0, 4.0, 5.0, 10.0, 100.0, 0.37, 2.5)
    for D, Ns in ((1, range(3, 257 if tier == "quick" else 1025)), (2, (3, 4, 7, 16, 49, 61, 98, 122)), (3, (3, 4, 5, 8, 29))):
        for N in Ns:
            for L in Ls:
                run.case(("grid", D, N, L), nontrivial=False)
                for full in (False, True):
                    g = np.asarray(ex.make_grid(D, L, N, full=full))
                    n = N + 1 if full else N
                    ax = np.arange(n) * (L / N)
                    want = np.stack(np.meshgrid(*([ax] * D), indexing="ij"))
                    tol = (1e-12 if session == "x64" else 1e-5) * L
                    if g.shape != want.shape or maxabs(g - want) > tol:
                        run.violation({"kind": "make_grid", "D": D, "N": N, "L": L, "full": full, "session": session},
                                      {"shape": list(g.shape)})


def check_unit_ifft(run: Run, rows: dict, ex, jnp, session: str, tol: float):
    for (D, N), tab in sorted(rows.items()):
        if N ** D > 4096:
            continue
        ND = float(N) ** D
        for s, r in tab.items():
            for name, val in (("unit_re", 1.0), ("unit_im", 1j)):
                run.case(("unit", D, N, s, name))
                h = dense_half(D, N, {s: val * ND})
                got = np.asarray(ex.ifft(jnp.asarray(h)[None], num_spatial_dims=D, num_points=N))[0]
                want = synth(D, N, {p: cq(c) * ND for p, c in as_map(r[name]).items()})
                err = max(maxabs(got - want.real), maxabs(want.imag))
                if err > tol * ND:
                    run.violation({"kind": "unit_ifft", "D": D, "N": N, "s": list(s), "entry": name, "session": session},
                                  {"err": err})


def check_basis(run: Run, fft_states: dict, rows: dict, ex, jnp, rng, session: str, tol: float):
    """fft_states: {(D,N,kappa): {"cos": (half, back), "sin": (...)}}"""
    sp = ex.spectral
    nsamp = 0
    for (D, N, kappa), st in sorted(fft_states.items()):
        if "cos" not in st or "sin" not in st:
            continue
        run.case(("basis", D, N, kappa))
        a = float(rng.uniform(0.3, 3.0))
        phi = float(rng.uniform(-np.pi, np.pi))
        L = float(rng.choice([1.0, 2 * np.pi, 0.37, 11.0]))
        # analytic field on the library's own grid
        grid = np.asarray(ex.make_grid(D, L, N))
        theta = sum(kappa[d] * grid[d] for d in range(D)) * (2 * np.pi / L)
        u = a * np.cos(theta + phi)
        ca, sa = a * np.cos(phi), -a * np.sin(phi)
        pred = ca * dense_half(D, N, {s: cq(c) for s, c in as_map(st["cos"][0]).items()}) + \
            sa * dense_half(D, N, {s: cq(c) for s, c in as_map(st["sin"][0]).items()})
        ND = float(N) ** D
        key = {"kind": "basis", "D": D, "N": N, "kappa": list(kappa), "session": session}
        uh = np.asarray(ex.fft(jnp.asarray(u)[None]))[0]
        err = maxabs(uh - pred) / ND
        if err > tol * a * (1 + max(abs(k) for k in kappa)):
            run.violation(dict(key, what="fft"), {"err": err, "a": a, "phi": phi, "L": L})
        if nsamp < 3:
            run.sample({"D": D, "N": N, "kappa": list(kappa), "a": a, "phi": phi, "L": L,
                        "predicted_slots": {str(list(s)): [float(np.real(pred[s])), float(np.imag(pred[s]))]
                                            for s in zip(*np.nonzero(np.abs(pred) > 1e-12))},
                        "fft_err": err})
            nsamp += 1
        # coefficient extraction in the three documented scalings
        tab = rows.get((D, N))
        if tab is not None:
            for mode, dn in (("norm_compensation", "den_norm"), ("reconstruction", "den_recon"), ("coef_extraction", "den_coef")):
                den = np.zeros(wshape(D, N))
                for s, r in tab.items():
                    den[s] = r[dn]
                want = pred * den / ND
                got = np.asarray(sp.get_fourier_coefficients(jnp.asarray(u)[None], scaling_compensation_mode=mode, round=None))[0]
                if maxabs(got - want) > tol * a * (1 + max(abs(k) for k in kappa)):
                    run.violation(dict(key, what="get_fourier_coefficients", mode=mode), {"err": maxabs(got - want)})
                # the same field as one channel of a multi-channel state (the scaling is per channel, whatever the channel count)
                C = 2 + (nsamp + N) % 2
                fac = np.array([1.0, -0.5, 0.25])[:C]
                gotc = np.asarray(sp.get_fourier_coefficients(jnp.asarray(fac.reshape((C,) + (1,) * D) * u[None]), scaling_compensation_mode=mode, round=None))
                if gotc.shape != (C,) + want.shape or max(maxabs(gotc[c] - fac[c] * want) for c in range(C)) > tol * a * (1 + max(abs(k) for k in kappa)):
                    run.violation(dict(key, what="get_fourier_coefficients", mode=mode, C=C), {"shape": list(gotc.shape)})
            got = np.asarray(sp.get_fourier_coefficients(jnp.asarray(u)[None], round=3))[0]
            den = np.zeros(wshape(D, N))
            for s, r in tab.items():
                den[s] = r["den_coef"]
            if maxabs(got - np.round(pred * den / ND, 3)) > 2e-3:
                run.violation(dict(key, what="get_fourier_coefficients round"), {})
        # inverse transform of the predicted spectrum and round trip
        back = np.asarray(ex.ifft(jnp.asarray(pred)[None], num_spatial_dims=D, num_points=N))[0]
        wantb = ca * synth(D, N, {p: cq(c) for p, c in as_map(st["cos"][1]).items()}) + \
            sa * synth(D, N, {p: cq(c) for p, c in as_map(st["sin"][1]).items()})
        if maxabs(back - wantb.real) > tol * a * 10 or maxabs(back - u) > tol * a * 10 * (1 + max(abs(k) for k in kappa)):
            run.violation(dict(key, what="ifft"), {"err_vs_spec": maxabs(back - wantb.real), "err_vs_field": maxabs(back - u)})


def check_roundtrip_random(run: Run, ex, jnp, rng, session, tol):
    for D, Ns in ((1, (3, 4, 7, 16, 33, 64)), (2, (3, 4, 7, 12)), (3, (3, 4, 5, 6))):
        for N in Ns:
            for C in (1, 3):
                run.case(("roundtrip", D, N, C))
                u = rng.standard_normal((C,) + (N,) * D)
                v = np.asarray(ex.ifft(ex.fft(jnp.asarray(u)), num_spatial_dims=D, num_points=N))
                if v.shape != u.shape or maxabs(v - u) > tol * 10:
                    run.violation({"kind": "roundtrip", "D": D, "N": N, "C": C, "session": session}, {"err": maxabs(v - u)})
                if D >= 2:
                    v2 = np.asarray(ex.ifft(ex.fft(jnp.asarray(u))))
                    if v2.shape != u.shape or maxabs(v2 - u) > tol * 10:
                        run.violation({"kind": "roundtrip_inferred", "D": D, "N": N, "C": C, "session": session}, {})


QUICK_MASKS = [3013, 3016, 2024, 2025]
THOR_MASKS = [3013, 3015, 3016, 3021, 3024, 2024, 2025, 2032, 2033, 2049, 2064]


def run_mask_model(run: Run, tier: str, workdir: str):
    cfg = os.path.join(workdir, "MC_Masks.cfg")
    tlc.write_cfg(cfg, constants={"DNSet": setlit(QUICK_MASKS if tier == "quick" else THOR_MASKS)}, invariants=["NestedOK", "OnSphereOK", "OddballOK"])
    r = tlc.run_tlc("MC_Masks", cfg, workers=16, dump=True, timeout=1800)
    run.add_tlc(r, "MC_Masks")
    if not r.ok:
        run.violation({"kind": "spec", "invariant": r.violated, "what": "MC_Masks"}, {"trace": r.trace_text})
    return r


def check_masks_big(run: Run, dump: str, ex, session: str):
    """low-pass (box and sphere) and oddball masks and the wavenumber mesh on grids beyond the full tables, every cutoff, both indexings: the
    sphere must keep exactly the stored indices with |k|^2 <= cutoff^2 (integers), in particular the modes lying on it"""
    sp = ex.spectral
    rows = {}
    for st in iter_dump_states(dump):
        rows.setdefault((st["D"], st["N"]), {})[tuple(st["s"])] = st["row"]
    for (D, N), tab in sorted(rows.items()):
        ws = wshape(D, N)
        boxmin, sqk, odd = np.zeros(ws, int), np.zeros(ws, int), np.zeros(ws, bool)
        exp_k = np.zeros((D,) + ws)
        for s_, r in tab.items():
            boxmin[s_], sqk[s_], odd[s_] = r["boxmin"], r["sqk"], r["oddball"]
            for d in range(D):
                exp_k[(d,) + s_] = r["k"][d]
        run.case(("masks", D, N, session))
        key0 = {"kind": "table", "D": D, "N": N, "session": session}
        perm = [1, 0] + list(range(2, D))
        on_sphere = sorted({int(c) for c in range(1, N // 2 + 2) if (sqk == c * c).sum() > (2 if D == 1 else 2 * D)})
        for indexing in ("ij", "xy"):
            wn = np.asarray(sp.build_wavenumbers(D, N, indexing=indexing))
            if wn.shape != exp_k.shape or maxabs(wn - (exp_k if indexing == "ij" else exp_k[perm])) > 1e-6:
                run.violation(dict(key0, what="build_wavenumbers values", indexing=indexing), {})
            got = np.asarray(sp.oddball_filter_mask(D, N))
            if got.shape != (1,) + ws or (got[0] != odd).any():
                run.violation(dict(key0, what="oddball_filter_mask"), {})
            for c in range(0, N // 2 + 2):
                for sep in (True, False):
                    try:
                        mk = np.asarray(sp.low_pass_filter_mask(D, N, cutoff=c, axis_separate=sep, indexing=indexing))
                    except TypeError:
                        mk = np.asarray(sp.low_pass_filter_mask(D, N, cutoff=c, axis_separate=sep))
                    want = (boxmin <= c) if sep else (sqk <= c * c)
                    if mk.shape != (1,) + ws or (mk[0] != want).any():
                        run.violation(dict(key0, what="low_pass_filter_mask", cutoff=c, axis_separate=sep, indexing=indexing),
                                      {"n_diff": int((mk[0] != want).sum()) if mk.shape == (1,) + ws else -1,
                                       "modes_on_the_cutoff_sphere": int((sqk == c * c).sum())})
        run.extra.setdefault("mask_tables_beyond_full_rows", {})[f"{D}d N={N} {session}"] = {"cutoffs_with_modes_on_the_sphere_off_the_axes": on_sphere}


def load_tables(r1, r2):
    rows, ffts = {}, {}
    for st in iter_dump_states(r1.dump):
        rows.setdefault((st["D"], st["N"]), {})[tuple(st["s"])] = st["row"]
    for st in iter_dump_states(r2.dump):
        ffts.setdefault((st["D"], st["N"], tuple(st["kappa"])), {})[st["trig"]] = (st["half"], st["back"])
    return rows, ffts


def run(tier: str, seed: int) -> int:
    run_ = Run(PID, tier, seed)
    x64 = os.environ.get("VERIF_SESSION", "x64") != "f32"
    jax = setup_jax(x64)
    import jax.numpy as jnp
    import exponax as ex
    work = os.path.join(tlc.SCRATCH, f"c04.{os.getpid()}")
    os.makedirs(work, exist_ok=True)
    r1, r2 = run_models(run_, tier, work)
    rows, ffts = load_tables(r1, r2)
    rng = np.random.default_rng(seed)
    session = "x64" if x64 else "f32"
    tol = 1e-10 if x64 else 3e-5
    check_tables(run_, rows, ex, jnp, session)
    rm = run_mask_model(run_, tier, work)
    check_masks_big(run_, rm.dump, ex, session)
    check_grids(run_, ex, session, tier)
    check_unit_ifft(run_, rows, ex, jnp, session, tol)
    check_basis(run_, ffts, rows, ex, jnp, rng, session, tol)
    check_roundtrip_random(run_, ex, jnp, rng, session, tol)
    # the default (float32) session: tables only, in a child process
    if x64:
        import subprocess, sys
        dumpdir = os.path.join(work, "f32")
        os.makedirs(dumpdir, exist_ok=True)
        env = dict(os.environ, VERIF_SESSION="f32", VERIF_C04_LAYOUT_DUMP=r1.dump, VERIF_C04_MASKS_DUMP=rm.dump, VERIF_C04_OUT=os.path.join(dumpdir, "res.json"))
        pr = subprocess.run([sys.executable, "-m", "harness.checks.c04_f32"], env=env, capture_output=True, text=True, timeout=1800)
        if pr.returncode != 0:
            raise RuntimeError("float32 child failed:\n" + pr.stdout[-2000:] + pr.stderr[-2000:])
        res = json.load(open(env["VERIF_C04_OUT"]))
        for k, d in res["violations"]:
            run_.violation(k, d)
        run_.evaluations += res["evaluations"]
        for k in res["keys"]:
            run_.nontrivial.add(("f32", k))
    run_.traces = len(ffts) + sum(len(t) for t in rows.values())
    run_.rule = ("one case per (D,N) table set, per stored index unit-ifft, per basis function (D,N,kappa) with random amplitude/"
                 "phase/L, per random round trip; non-trivial = distinct case key; traces_validated = TLC states (table rows + basis "
                 "images incl. aliases) replayed entry by entry into the library")
    run_.exhaustive = True
    run_.extra["configs_layout"] = len(rows)
    run_.extra["basis_functions"] = len(ffts)
    run_.assumptions = ["numpy trigonometric evaluation of the analytic basis field", "TLC dump parser",
                        "tolerance 1e-10 (x64) / 3e-5 (f32) relative to N^D*a"]
    tlc.cleanup(r1)
    tlc.cleanup(r2)
    import shutil
    shutil.rmtree(work, ignore_errors=True)
    # layout arithmetic for EVERY N (Apalache, unbounded integers): DofAllN
    from .. import tlc as _tlc
    for _inv in ['DofAllN']:
        _ok, _wall, _tail = _tlc.run_apalache("Lemmas_apa", _inv)
        run_.extra.setdefault("all_N_lemmas_apalache", {})[_inv] = _ok
        if not _ok:
            run_.violation({"kind": "spec", "invariant": _inv, "what": "all-N lemma refuted"}, {"apalache": _tail})
    # the composed machine (spec/Session.tla): multi-step API sessions generated by TLC -simulate, replayed call by call; this check
    # reports the mismatches of the operations it owns (filter)
    if tier != "quick":
        from .. import session
        import jax.numpy as _jnp
        import exponax as _ex
        session.run_for(run_, tier, seed, _ex, _jnp, ['filter', 'oddball', 'coefs'], PID)
        from .. import sessiontrace   # the other direction: driver-chosen sessions executed by the library, every returned state validated by TLC (Trace_Session.tla)
        sessiontrace.run_for(run_, tier, seed, _ex, _jnp, ['filter', 'oddball', 'coefs'], PID)
    return run_.finish()


def replay(path: str) -> int:
    case = json.load(open(path))
    print("replay of a recorded case re-runs the quick tier restricted to its configuration:", case["key"])
    return run("quick", int(case.get("seed", 0)))
