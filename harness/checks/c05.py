"""C05 Spectral differential operators are exact on band-limited fields."""
from __future__ import annotations

import os
import shutil

import numpy as np

from .. import linear, tlc, zoo
from ..evidence import Run
from ..num import maxabs, setup_jax, wshape

PID = "C05"


def sym_arrays(D, N, table, omega, maxj=6):
    """per-axis derivative symbols (i w k_d)^m from the specification table: dict (d, m) -> array"""
    out = {}
    for d in range(1, D + 1):
        for m in range(1, maxj + 1):
            params = {("axis", dd, mm): (1.0 if (dd, mm) == (d, m) else 0.0) for dd in range(1, D + 1) for mm in range(1, maxj + 1)}
            out[(d, m)] = linear.symbol_array(D, N, table, params, omega)
    return out


def run(tier: str, seed: int) -> int:
    run_ = Run(PID, tier, seed)
    setup_jax(True)
    import jax.numpy as jnp
    import exponax as ex
    rng = np.random.default_rng(seed)
    work = os.path.join(tlc.SCRATCH, f"c05.{os.getpid()}")
    os.makedirs(work, exist_ok=True)
    res = linear.run_model(run_, tier, work, maxt=0)
    tables, _ = linear.load(res)
    tlc.cleanup(res)
    nsamp = 0
    for (cls, mix, D, N), table in sorted(tables.items()):
        if cls != "Derivative":
            continue
        if N ** D > 5000:
            continue
        # domain extents over many decades: the symbols scale like (2 pi / L)^order, from 1e-20 to 1e+15 over this list
        for L in (1.0, 2 * np.pi, float(rng.uniform(0.3, 20)), 2.5e3 * float(rng.uniform(1, 2)), 1e5, 1e-3):
            omega = 2 * np.pi / L
            mj = 4 if N > 35 else 6          # the large 1D tables carry orders <= 4 (k^6 leaves TLC's 32-bit integers)
            S = sym_arrays(D, N, table, omega, maxj=mj)
            dop = np.asarray(ex.spectral.build_derivative_operator(D, L, N))
            key = {"kind": "operator", "D": D, "N": N}
            run_.case(("ops", D, N, L))
            for d in range(1, D + 1):
                if maxabs(dop[d - 1] - S[(d, 1)]) > 1e-12 * (1 + maxabs(S[(d, 1)])):
                    run_.violation(dict(key, what="build_derivative_operator"), {"axis": d - 1, "L": L})
            for o in [x for x in (0, 2, 4, 6) if x <= mj]:
                lap = np.asarray(ex.spectral.build_laplace_operator(jnp.asarray(dop), order=o))
                want = np.ones(wshape(D, N)) if o == 0 else sum(S[(d, o)] for d in range(1, D + 1))
                if lap.shape != (1,) + wshape(D, N) or maxabs(lap[0] - want) > 1e-11 * (1 + maxabs(want)):
                    run_.violation(dict(key, what="build_laplace_operator", order=o), {"L": L})
            for o in [x for x in (1, 3, 5) if x <= mj]:
                vel = rng.uniform(-2, 2, D)
                g = np.asarray(ex.spectral.build_gradient_inner_product_operator(jnp.asarray(dop), jnp.asarray(vel), order=o))
                want = sum(vel[d - 1] * S[(d, o)] for d in range(1, D + 1))
                if g.shape != (1,) + wshape(D, N) or maxabs(g[0] - want) > 1e-11 * (1 + maxabs(want)):
                    run_.violation(dict(key, what="build_gradient_inner_product_operator", order=o), {"L": L})
            # derivative of Nyquist-free trigonometric polynomials, every order, every channel count, output layout
            for C in (1, 2, 3):
                u = zoo.nyquist_free(ex, jnp, rng.standard_normal((C,) + (N,) * D))
                uh = np.asarray(ex.fft(jnp.asarray(u)))
                for m in range(1, mj + 1):
                    run_.case(("derivative", D, N, C, m, L))
                    got = np.asarray(ex.derivative(jnp.asarray(u), L, order=m))
                    want = np.stack([np.stack([np.asarray(ex.ifft(jnp.asarray(S[(d, m)] * uh[c])[None], num_spatial_dims=D, num_points=N))[0]
                                               for d in range(1, D + 1)]) for c in range(C)])
                    if C == 1:
                        want = want[0]
                    scale = 1 + maxabs(want)
                    if got.shape != want.shape or maxabs(got - want) > 1e-10 * scale:
                        run_.violation({"kind": "derivative", "D": D, "N": N, "C": C, "order": m},
                                       {"L": L, "shape": list(got.shape), "want_shape": list(want.shape),
                                        "err": maxabs(got - want) / scale if got.shape == want.shape else None})
            # single basis functions: analytic derivative of a cos(w k.x + phi) along every axis (closed form, no fft in the oracle)
            grid = np.asarray(ex.make_grid(D, L, N))
            for rep in range(4):
                kap = [int(rng.integers(-((N - 1) // 2), (N - 1) // 2 + 1)) for _ in range(D)]
                a, phi = float(rng.uniform(0.5, 2)), float(rng.uniform(-3, 3))
                theta = sum(kap[d] * grid[d] for d in range(D)) * omega + phi
                u = a * np.cos(theta)
                for m in (1, 2, 3):
                    run_.case(("analytic", D, N, tuple(kap), m, L))
                    got = np.asarray(ex.derivative(jnp.asarray(u)[None], L, order=m))
                    for d in range(D):
                        want = a * (omega * kap[d]) ** m * np.cos(theta + m * np.pi / 2)
                        # + the rounding noise of the transform (eps * a on every mode) amplified by the symbol of the highest resolved mode
                        if maxabs(got[d] - want) > 1e-9 * (1 + maxabs(want)) * (1 + abs(omega * max(map(abs, kap))) ** m) + 1e-12 * a * (omega * (N // 2)) ** m:
                            run_.violation({"kind": "derivative-analytic", "D": D, "N": N, "order": m}, {"kappa": kap, "axis": d, "L": L})
                if nsamp < 3:
                    run_.sample({"D": D, "N": N, "L": L, "kappa": kap, "a": a, "phi": phi, "orders": [1, 2, 3]})
                    nsamp += 1
            # Poisson
            for o in (2, 4):
                P = ex.poisson.Poisson(D, L, N, order=o)
                for C in (1, 2):
                    run_.case(("poisson", D, N, o, C, L))
                    f = zoo.nyquist_free(ex, jnp, rng.standard_normal((C,) + (N,) * D)) + rng.uniform(-1, 1, (C,) + (1,) * D)
                    u = np.asarray(P(jnp.asarray(f)))
                    sym = sum(S[(d, o)] for d in range(1, D + 1))
                    lap_u = np.asarray(ex.ifft(jnp.asarray(sym[None] * np.asarray(ex.fft(jnp.asarray(u)))), num_spatial_dims=D, num_points=N))
                    f0 = f - f.reshape(C, -1).mean(axis=1).reshape((C,) + (1,) * D)
                    key = {"kind": "poisson", "D": D, "N": N, "order": o}
                    if u.shape != f.shape or maxabs(u.reshape(C, -1).mean(axis=1)) > 1e-12 * (1 + maxabs(u)):
                        run_.violation(dict(key, what="result not zero-mean"), {"L": L})
                    elif maxabs(lap_u + f0) > 1e-9 * (1 + maxabs(f0)):
                        run_.violation(dict(key, what="operator(u) != -(f - mean f)"), {"L": L, "err": maxabs(lap_u + f0)})
    run_.traces = sum(len(t) for k, t in tables.items() if k[0] == "Derivative")
    run_.rule = ("operator cases: (D, N, L) entry-wise against the TLC symbol table; derivative cases: (D, N, C, order, L) on random Nyquist-free states and "
                 "single modes against closed forms; Poisson cases: (D, N, order, C, L)")
    run_.exhaustive = True
    run_.assumptions = ["fft conventions (C04)", "numpy cos for the closed-form derivatives", "tolerance 1e-10 relative"]
    shutil.rmtree(work, ignore_errors=True)
    # ---- indexing="xy": component d of the gradient is the derivative along coordinate d of make_grid(indexing="xy") (Layout: the xy tables
    # are the ij tables with the first two axes exchanged), for D = 2, 3, against the closed form on that very grid
    for D, N in ((2, 8), (2, 9), (3, 6), (3, 7)):
        L = 2.0
        omega = 2 * np.pi / L
        X = np.asarray(ex.make_grid(D, L, N, indexing="xy"))
        for rep in range(3):
            kap = [int(rng.integers(-((N - 1) // 2), (N - 1) // 2 + 1)) for _ in range(D)]
            if rep == 0:
                kap = ([1, 2, 3] if (N - 1) // 2 >= 3 else [1, 2, 1])[:D]      # distinct wavenumbers per coordinate (below Nyquist): a permutation of the components shows
            phi = float(rng.uniform(-3, 3))
            theta = omega * sum(kap[d] * X[d] for d in range(D)) + phi
            u = np.cos(theta)[None]
            dop = np.asarray(ex.spectral.build_derivative_operator(D, L, N, indexing="xy"))
            dop_ij = np.asarray(ex.spectral.build_derivative_operator(D, L, N))
            perm = [1, 0, 2][:D]
            run_.case(("derivative-xy", D, N, tuple(kap)))
            if dop.shape != dop_ij.shape or any(maxabs(dop[d] - dop_ij[perm[d]]) > 1e-12 * (1 + maxabs(dop_ij)) for d in range(D)):
                run_.violation({"kind": "operator", "D": D, "N": N, "what": "build_derivative_operator(indexing=xy)"}, {})
            for m in (1, 2, 3):
                got = np.asarray(ex.derivative(jnp.asarray(u), L, order=m, indexing="xy")).reshape((D,) + (N,) * D)
                for d in range(D):
                    want = (omega * kap[d]) ** m * np.cos(theta + m * np.pi / 2)
                    if maxabs(got[d] - want) > 1e-9 * (1 + (omega * max(1, max(map(abs, kap)))) ** m):
                        run_.violation({"kind": "derivative-analytic", "D": D, "N": N, "order": m, "what": "indexing=xy"}, {"kappa": kap, "component": d})
                        break
    # ---- large grids, high orders: the symbol (i w k_d)^m of the specification (Symbols.DerivativeTerms, checked by TLC for k <= 16 where
    # k^6 fits its 32-bit integers) evaluated for k up to 64 in floating point: single modes and a random trigonometric polynomial
    for D, N in ((1, 128), (1, 81), (2, 80)):
        L = 2.5
        omega = 2 * np.pi / L
        kax = np.fft.fftfreq(N, 1 / N)
        for m in range(1, 7):
            for rep in range(3):
                kappa = [int(rng.integers(max(1, N // 4), (N - 1) // 2 + 1)) * int(rng.choice([-1, 1])) for _ in range(D)]
                if rep == 0:
                    kappa = [(N - 1) // 2] * D
                grid = np.stack(np.meshgrid(*([np.arange(N) * (L / N)] * D), indexing="ij"))
                phase = omega * sum(kappa[d] * grid[d] for d in range(D)) + 0.3
                u = (np.cos(phase) + 0.5 * np.cos(omega * 3 * grid[0]))[None]
                got = np.asarray(ex.derivative(jnp.asarray(u), L, order=m)).reshape((D,) + (N,) * D)
                run_.case(("derivative-large", D, N, m, tuple(kappa)))
                for d in range(D):
                    # d^m/dx^m cos(theta) = (w k)^m cos(theta + m pi / 2)
                    want = (omega * kappa[d]) ** m * np.cos(phase + m * np.pi / 2) + (0.5 * (omega * 3) ** m * np.cos(omega * 3 * grid[0] + m * np.pi / 2) if d == 0 else 0.0)
                    sc = (omega * max(abs(k) for k in kappa)) ** m
                    if maxabs(got[d] - want) > 1e-9 * sc:
                        run_.violation({"kind": "derivative-analytic", "D": D, "N": N, "order": m, "what": "large grid"},
                                       {"kappa": kappa, "axis": d, "err_rel": maxabs(got[d] - want) / sc})
                        break
    # ---- default (float32) session: the same public calls on the same inputs in a float32 child process
    from .. import xsession as _xs
    import numpy as _np
    _rng = _np.random.default_rng(seed + 77)
    _cases = []
    for _D, _N in ((1, 16), (2, 8), (3, 6), (1, 15), (2, 9)):
        _u = _rng.standard_normal((2,) + (_N,) * _D)
        for _o in (1, 2, 3, 4):
            _cases.append(dict(id=f"derivative/{_D}/{_N}/{_o}", name="derivative", args=[_u, 3.0], kw=dict(order=_o)))
        for _o in (2, 4):
            _cases.append(dict(id=f"poisson/{_D}/{_N}/{_o}", name="poisson", args=[_u], kw=dict(L=3.0, order=_o)))
            _cases.append(dict(id=f"laplace/{_D}/{_N}/{_o}", name="laplace_operator", args=[], kw=dict(D=_D, L=3.0, N=_N, order=_o)))
    _xs.compare(run_, PID, _cases, os.path.join(tlc.SCRATCH, f"c05xs.{os.getpid()}"))
    # ---- histories across the precision mode: one process uses the operators in float32 and then in float64 on the same grids (and the other
    # way round); every phase must deliver the accuracy and the dtype of its own mode (c05_switch.py)
    import json as _json
    import subprocess as _sp
    import sys as _sys
    for _first in ("0", "1"):
        _outp = os.path.join(tlc.SCRATCH, f"c05sw.{os.getpid()}.{_first}.json")
        _env = dict(os.environ, VERIF_C05_FIRST=_first, VERIF_C05_OUT=_outp, JAX_PLATFORMS="cpu")
        _env.pop("JAX_ENABLE_X64", None)
        _pr = _sp.run([_sys.executable, "-m", "harness.checks.c05_switch"], env=_env, capture_output=True, text=True, timeout=1800, cwd=os.path.dirname(os.path.dirname(os.path.dirname(__file__))))
        if _pr.returncode != 0 or not os.path.exists(_outp):
            raise RuntimeError("precision-switch child failed:\n" + _pr.stdout[-1500:] + _pr.stderr[-1500:])
        _res = _json.load(open(_outp))
        os.remove(_outp)
        for _ph in _res["phases"]:
            for _c in _ph["cases"]:
                run_.case(("precision-switch", _first, _ph["x64"], _c["what"], _c["D"], _c["N"], _c["order"]))
                _want = ("complex" if _c["what"] == "laplace operator" else "float") + ("128" if _c["what"] == "laplace operator" and _ph["x64"] else "64" if _ph["x64"] or _c["what"] == "laplace operator" else "32")
                if _c["dtype"] != _want or not _c["err_over_eps"] <= 300:
                    run_.violation({"kind": "precision-switch", "what": _c["what"], "D": _c["D"], "order": _c["order"],
                                    "mode": ("float64" if _ph["x64"] else "float32") + (" phase, first" if str(int(_ph["x64"])) == _first else " phase, after the other mode")},
                                   {"N": _c["N"], "dtype": _c["dtype"], "expected_dtype": _want, "error_in_units_of_eps": _c["err_over_eps"]})
    # the composed machine (spec/Session.tla): multi-step API sessions generated by TLC -simulate, replayed call by call; this check
    # reports the mismatches of the operations it owns (derive)
    if True:
        from .. import session
        import jax.numpy as _jnp
        import exponax as _ex
        session.run_for(run_, tier, seed, _ex, _jnp, ['derive', 'poisson'], PID)
        from .. import sessiontrace   # the other direction: driver-chosen sessions executed by the library, every returned state validated by TLC (Trace_Session.tla)
        sessiontrace.run_for(run_, tier, seed, _ex, _jnp, ['derive', 'poisson'], PID)
    return run_.finish()


def replay(path):
    return run("quick", 0)
