"""Child of the C09 check: ONE process in which steppers are first built and used in the default (float32) mode and then, after `jax_enable_x64` is
switched on, built again (and in the other order).  Constant equilibria are fixed points and the mean is conserved to the rounding of the mode
that is active when the stepper is built: nothing the integrators are built from may remember the precision mode of an earlier construction."""
from __future__ import annotations

import json
import os
import sys

import numpy as np


def probe(ex, jnp, x64):
    R = ex.stepper.reaction
    eps = 2.3e-16 if x64 else 1.2e-7
    dt_ = np.float64 if x64 else np.float32
    recs = []
    for order in (1, 2, 3, 4):
        for name, st, us in (("FisherKPP", R.FisherKPP(1, 3.0, 16, 0.05, diffusivity=0.01, reactivity=1.0, order=order), [1.0]),
                             ("AllenCahn", R.AllenCahn(2, 3.0, 8, 0.5, diffusivity=0.01, order=order), [-1.0]),
                             ("SwiftHohenberg", R.SwiftHohenberg(1, 3.0, 16, 0.1, reactivity=3.0, critical_number=1.0, polynomial_coefficients=(0.0, 0.0, 1.0, -1.0), order=order), [2.0])):
            D, N = st.num_spatial_dims, st.num_points
            u0 = np.stack([np.full((N,) * D, v) for v in us]).astype(dt_)
            u = jnp.asarray(u0)
            for _ in range(5):
                u = st(u)
            recs.append({"what": "equilibrium", "cls": name, "order": order, "dtype": str(u.dtype), "err_over_eps": float(np.max(np.abs(np.asarray(u, dtype=np.float64) - u0))) / eps})
        bg = ex.stepper.Burgers(1, 3.0, 16, 0.01, diffusivity=0.05, order=order, single_channel=True)
        rng = np.random.default_rng(order)
        u0 = (rng.integers(-3, 4, (1, 16)) / 4.0).astype(dt_)
        u = jnp.asarray(u0)
        for _ in range(5):
            u = bg(u)
        recs.append({"what": "mean", "cls": "Burgers", "order": order, "dtype": str(u.dtype), "err_over_eps": abs(float(np.mean(np.asarray(u, dtype=np.float64))) - float(np.mean(u0))) / eps})
    return recs


def main():
    first_x64 = os.environ.get("VERIF_C09_FIRST") == "1"
    os.environ["JAX_PLATFORMS"] = "cpu"
    import jax
    jax.config.update("jax_enable_x64", first_x64)
    import jax.numpy as jnp
    import exponax as ex
    out = {"first_x64": first_x64, "phases": []}
    for x64 in (first_x64, not first_x64):
        jax.config.update("jax_enable_x64", x64)
        out["phases"].append({"x64": x64, "cases": probe(ex, jnp, x64)})
    json.dump(out, open(os.environ["VERIF_C09_OUT"], "w"))


if __name__ == "__main__":
    sys.exit(main())
