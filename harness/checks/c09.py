"""C09 Conserved quantities and equilibria survive the discretisation exactly."""
from __future__ import annotations

import os
import shutil

import numpy as np

from .. import etdrk, linear, monitor, nonlin, registry, tlc, zoo
from ..evidence import Run
from ..num import maxabs, setup_jax

PID = "C09"

MEAN_LINEAR = ["Advection", "Diffusion", "AdvectionDiffusion", "Dispersion", "HyperDiffusion"]


def mean_cases(tier):
    """(name, D, kwargs, state kind) for which the property claims mean conservation"""
    out = []
    for D in (1, 2, 3):
        for n in MEAN_LINEAR:
            out.append((n, D, {}, "noise"))
        for n in ("Burgers", "KortewegDeVries", "KuramotoSivashinskyConservative"):
            out.append((n, D, dict(conservative=True), "noise"))
            out.append((n, D, dict(single_channel=True), "noise"))
            out.append((n, D, dict(single_channel=True, conservative=True), "noise"))
            if D == 1:
                out.append((n, D, {}, "noise"))
        out.append(("KuramotoSivashinsky", D, {}, "noise"))
        out.append(("CahnHilliard", D, {}, "noise"))
    out.append(("NavierStokesVorticity", 2, {}, "noise"))
    out.append(("NavierStokesVelocity", 3, {}, "solenoidal"))
    out.append(("NavierStokesVelocity", 3, {}, "compressible"))
    return out


def check_mean(run, ex, jnp, rng, tier):
    traces, meta = [], []
    for name, D, kw, kind in mean_cases(tier):
        for N in zoo.grid_sizes(D, tier):
            for order in ((1, 2, 3, 4) if registry.has_order(registry.stepper_classes()[name]) else (None,)):
                if tier == "quick" and order in (1, 3) and D > 1:
                    continue
                dt = float(rng.choice([0.002, 0.01]))
                L = float(rng.choice([2 * np.pi, 3.0, 60.0]))
                if name == "NavierStokesVelocity" and kind == "solenoidal" and order in (2, 4):
                    # large box, large step: whatever compressive part a stage leaves behind feeds mean(u div u) of the next one
                    L, dt = 60.0, 0.1
                st = registry.make(name, D, N, L=L, dt=dt, order=order, **kw)
                C = st.num_channels
                u = zoo.white_noise(rng, C, D, N, amp=0.5) + rng.uniform(-1, 1, (C,) + (1,) * D)
                if kind == "solenoidal":
                    u = np.asarray(ex.spectral.make_incompressible(jnp.asarray(zoo.nyquist_free(ex, jnp, u))))
                u = jnp.asarray(u)
                m0 = np.asarray(u).reshape(C, -1).mean(axis=1)
                ev = []
                worst = 0.0
                for i in range(1, 4):
                    u = st(u)
                    un = np.asarray(u)
                    if not np.all(np.isfinite(un)):
                        break
                    m = un.reshape(C, -1).mean(axis=1)
                    scale = 1 + maxabs(un)
                    ev.append({"ev": "Step", "i": i, "res": [monitor.ulps(m[c] - m0[c], scale) for c in range(C)]})
                    worst = max(worst, maxabs(m - m0) / scale)
                if len(ev) < 3:
                    run.extra.setdefault("uncovered", []).append(f"{name} D={D} N={N} {kw}: non-finite")
                    continue
                traces.append({"events": ev})
                meta.append({"cls": name, "D": D, "N": N, "kw": str(kw), "order": order, "state": kind, "worst_rel_drift": worst})
    verdicts = monitor.validate(run, traces, 20000, "mean")
    for (acc, pref), m in zip(verdicts, meta):
        run.case(("mean", m["cls"], m["D"], m["N"], m["kw"], m["order"], m["state"]))
        if not acc:
            run.violation({"kind": "mean", "cls": m["cls"], "D": m["D"], "state": m["state"], "form": m["kw"], "order": m["order"]},
                          {"N": m["N"], "worst_rel_drift": m["worst_rel_drift"], "accepted_prefix": pref})
    run.traces += len(traces)
    run.sample({"mean_trace": traces[0], "meta": meta[0]})
    monitor.selftest(run, traces, 20000)


def inner(a, b):
    return float(np.mean(np.asarray(a) * np.asarray(b)))


def check_work(run, ex, jnp, rng, tier):
    """<u, N(u)> in physical space vanishes on band-limited states for the energy-neutral forms (and <psi,N>, <omega,N> in 2D)."""
    for D in (1, 2, 3):
        # grid sizes: odd, even, and divisible by 6 (where 2/3 (N//2) is an integer: the edge of the retained band is the first mode whose
        # triple products would alias onto retained modes)
        for N in ((16, 15, 18, 24) if D == 1 else (12, 9, 10, 13) if D == 2 else (8, 9, 6)):      # N % 3 picks the domain extent: pi, 2 pi, 4 pi
            cut = (2 * (N // 2)) // 3 - 1
            for term, limited in [(t, b) for t in ("conv_sc_cons", "conv_sc_non", "conv_mc_cons", "conv_mc_non", "vort2d", "rot3d") for b in (True, False)]:
                if term.startswith("conv_mc") and D != 1:
                    continue
                if (term == "vort2d" and D != 2) or (term == "rot3d" and D != 3):
                    continue
                fun = nonlin.build(ex, jnp, term, D, N)
                C = 3 if term == "rot3d" else 1 if "_sc_" in term or term == "vort2d" else D
                u = zoo.white_noise(rng, C, D, N, amp=1.0)
                if limited:
                    u = zoo.band_limited(ex, jnp, u, cut)
                elif term == "rot3d":
                    # the Leray projector needs a Nyquist-free field to be an orthogonal projection (C10's caveat)
                    u = zoo.nyquist_free(ex, jnp, u)
                # (not band-limited: the term dealiases its own input, N(u) = P Op(P u) with P the self-adjoint projection onto the retained
                #  band, so <u, N(u)> = <P u, Op(P u)> vanishes for ARBITRARY states as long as the evaluation is alias-free)
                if term == "rot3d":
                    u = np.asarray(ex.spectral.make_incompressible(jnp.asarray(u)))
                uh = ex.fft(jnp.asarray(u))
                Nu = np.asarray(ex.ifft(fun(uh), num_spatial_dims=D, num_points=N))
                run.case(("work", term, D, N, limited))
                scale = maxabs(u) * maxabs(Nu) + 1e-300
                w = sum(inner(u[c], Nu[c]) for c in range(C))
                if abs(w) > 1e-11 * scale:
                    run.violation({"kind": "work", "term": term, "D": D, "N": N, "state": "band-limited" if limited else "white noise"}, {"work": w, "scale": scale})
                if term == "vort2d":
                    lap = -(np.asarray(ex.spectral.build_scaled_wavenumbers(D, 2 * np.pi / nonlin.omega(N), N)) ** 2).sum(axis=0)
                    psi_h = np.where(lap == 0, 0, np.asarray(uh)[0] / np.where(lap == 0, 1, lap))
                    psi = np.asarray(ex.ifft(jnp.asarray(psi_h)[None], num_spatial_dims=D, num_points=N))
                    w2 = inner(psi[0], Nu[0])
                    if abs(w2) > 1e-11 * (maxabs(psi) * maxabs(Nu) + 1e-300):
                        run.violation({"kind": "work", "term": "vort2d-energy", "D": D, "N": N}, {"work": w2})


def check_equilibria(run, ex, jnp, rng, tier):
    R = ex.stepper.reaction
    cases = []
    for D in (1, 2, 3):
        N = {1: 16, 2: 8, 3: 6}[D]
        cases += [("FisherKPP", D, N, {}, [[0.0], [1.0]]),
                  ("AllenCahn", D, N, {}, [[0.0], [1.0], [-1.0]]),
                  # wells at +- sqrt(- c_1 / c_3) for coefficient ratios other than the default c_3 = - c_1
                  ("AllenCahn", D, N, dict(first_order_coefficient=2.0, third_order_coefficient=-0.5), [[2.0], [-2.0], [0.0]]),
                  ("AllenCahn", D, N, dict(first_order_coefficient=1.0, third_order_coefficient=-4.0), [[0.5], [-0.5]]),
                  ("FisherKPP", D, N, dict(reactivity=2.5), [[1.0], [0.0]]),
                  ("GrayScott", D, N, dict(feed_rate=0.03, kill_rate=0.07), [[1.0, 0.0]]),
                  ("GrayScott", D, N, {}, [[1.0, 0.0]]),
                  ("SwiftHohenberg", D, N, dict(reactivity=3.0, critical_number=1.0, polynomial_coefficients=(0.0, 0.0, 1.0, -1.0)), [[0.0], [2.0], [-1.0]]),
                  # r - k^2 = 2 with a non-default critical number: (r - k^2) u + u^2 - u^3 = 0  <=>  u in {0, 2, -1}
                  ("SwiftHohenberg", D, N, dict(reactivity=2.25, critical_number=0.5, polynomial_coefficients=(0.0, 0.0, 1.0, -1.0)), [[2.0], [-1.0]]),
                  ("SwiftHohenberg", D, N, dict(reactivity=4.25, critical_number=1.5, polynomial_coefficients=(0.0, 0.0, 1.0, -1.0)), [[2.0]]),
                  ("CahnHilliard", D, N, {}, [[0.3], [-1.2]]),
                  ("Burgers", D, N, dict(single_channel=True), [[0.7]]),
                  ("KortewegDeVries", D, N, dict(single_channel=True), [[-0.4]]),
                  ("KuramotoSivashinsky", D, N, {}, [[1.5]]),
                  ("KuramotoSivashinskyConservative", D, N, dict(single_channel=True), [[0.9]])]
        if D > 1:
            cases.append(("Burgers", D, N, {}, [[0.5, -0.25, 0.125][:D]]))
    cases.append(("NavierStokesVorticity", 2, 8, {}, [[0.6]]))
    # generic interface with a quadratic reaction term: D a_0 u + b_0 u^2 = 0  <=>  u* = - D a_0 / b_0 (the generic zeroth-order term is D a_0)
    for D in (1, 2, 3):
        cases.append(("GeneralNonlinearStepper", D, {1: 16, 2: 8, 3: 6}[D], dict(linear_coefficients=(0.6 / D, 0.0, 0.02), nonlinear_coefficients=(-0.4, -0.3, 0.1)), [[1.5], [0.0]]))
        cases.append(("GeneralPolynomialStepper", D, {1: 16, 2: 8, 3: 6}[D], dict(linear_coefficients=(0.6 / D, 0.0, 0.02), polynomial_coefficients=(0.0, 0.0, -0.4)), [[1.5]]))
    cases.append(("NavierStokesVelocity", 3, 6, {}, [[0.2, -0.1, 0.3]]))
    for name, D, N, kw, eqs in cases:
        for order in (1, 2, 3, 4):
            st = registry.make(name, D, N, L=3.0, dt=0.01, order=order, **kw)
            for us in eqs:
                u = np.stack([np.full((N,) * D, v) for v in us])
                run.case(("equilibrium", name, D, order, tuple(us)))
                un = np.asarray(u)
                ok = True
                for _ in range(3):
                    un = np.asarray(st(jnp.asarray(un)))
                err = maxabs(un - u)
                if not err <= 1e-11 * (1 + maxabs(u)):
                    run.violation({"kind": "equilibrium", "cls": name, "D": D, "order": order}, {"u_star": us, "err": err})
                del ok


def check_equilibria_growth(run, ex, jnp):
    """Constant equilibria with N(u*) != 0 for a ladder of growth*dt (the row-sum identities hold for every z, in particular where
    |lambda(0) dt| equals the radius of the coefficient contour)."""
    R = ex.stepper.reaction
    # the second group walks |lambda(0) dt| down to zero (where an implementation may switch between formulas for the coefficients): there the
    # contour quadrature is exact to rounding, so the fixed point is demanded to 2e-12 (measured on the unchanged tree: <= 2e-14)
    for r, dt in ((1.0, 1.0), (2.0, 0.5), (4.0, 0.25), (0.999, 1.0), (1.0, 0.5), (3.0, 1.0), (0.3, 0.1),
                  (1.0, 0.2), (1.0, 0.13), (1.0, 0.099), (0.9, 0.1), (1.4, 0.05), (1.0, 0.05), (0.5, 0.04), (1.1, 0.01), (1.0, 0.0099), (0.7, 1e-3), (1.0, 1e-5), (1.0, 1e-8)):
        tol = 1e-10 if r * dt > 0.25 else 2e-12
        for order in (1, 2, 3, 4):
            for name, st, us in (("FisherKPP", R.FisherKPP(1, 3.0, 16, dt, diffusivity=0.01, reactivity=r, order=order), [1.0]),
                                 ("AllenCahn", R.AllenCahn(1, 3.0, 16, dt, diffusivity=0.01, first_order_coefficient=r, third_order_coefficient=-r, order=order), [1.0]),
                                 ("AllenCahn", R.AllenCahn(2, 3.0, 8, dt, diffusivity=0.01, first_order_coefficient=r, third_order_coefficient=-r, order=order), [-1.0])):
                D, N = st.num_spatial_dims, st.num_points
                u = np.stack([np.full((N,) * D, v) for v in us])
                run.case(("equilibrium-growth", name, D, order, r, dt))
                un = np.asarray(st(jnp.asarray(u)))
                err = maxabs(un - u)
                if not err <= tol * (1 + maxabs(u)):
                    run.violation({"kind": "equilibrium", "cls": name, "D": D, "order": order, "what": "growth*dt ladder"},
                                  {"u_star": us, "growth": r, "dt": dt, "err": err})


def run(tier: str, seed: int) -> int:
    run_ = Run(PID, tier, seed)
    setup_jax(True)
    import jax.numpy as jnp
    import exponax as ex
    rng = np.random.default_rng(seed)
    invs = ["MeanOK", "EnergyOK", "VortOK", "Rot3dOK", "BandOK"]
    confs = [("e1", [1012, 1013, 1016], ["conv_mc_cons", "conv_mc_non", "conv_sc_cons", "conv_sc_non", "gradnorm_fix"], 1),
             ("e2", [2006, 2007], ["conv_mc_cons", "conv_sc_cons", "conv_sc_non", "gradnorm_fix", "vort2d"], 1),
             ("e3", [3006], ["rot3d", "conv_mc_cons", "conv_sc_cons"], 0),
             ("ec", [1008, 2008], ["cahn_hilliard"], 0)]
    if tier != "quick":
        confs += [("e2b", [2009, 2010], ["conv_mc_cons", "conv_sc_cons", "conv_sc_non", "gradnorm_fix", "vort2d"], 1),
                  ("e3b", [3006], ["rot3d"], 1)]
    for label, dn, terms, extra in confs:
        res = nonlin.run_model(run_, dn, terms, extra, label, invs=invs, dump=False)
        tlc.cleanup(res)
    # fixed points of every order rest on the row-sum identities of the tableau; the mean on lambda(0) = 0
    etdrk.run_model(run_)
    work = tlc.SCRATCH + "/c09lin"
    import os
    os.makedirs(work, exist_ok=True)
    res = linear.run_model(run_, "quick", work, maxt=0)
    tlc.cleanup(res)
    check_mean(run_, ex, jnp, rng, tier)
    check_work(run_, ex, jnp, rng, tier)
    check_equilibria(run_, ex, jnp, rng, tier)
    check_equilibria_growth(run_, ex, jnp)
    tlc.cleanup_mine()
    run_.rule = ("TLC: MeanOK/EnergyOK/VortOK/Rot3dOK over sums of degree+1 basis functions (trilinear forms), MC_Linear.MeanOK, MC_ETDRK.RowSumOK; "
                 "conformance: one monitored 3-step rollout per (class, form, D, N, order) validated by TLC (Trace_Monitor), physical-space work on "
                 "band-limited states, constant equilibria x orders 1-4")
    run_.assumptions = ["tolerance 2e4 ulps of the state magnitude for the mean, 1e-11 relative for work and fixed points",
                        "3D velocity steppers: conservation of the mean is demanded on solenoidal states; the compressible case is a listed known finding"]
    # ---- histories across the precision mode (c09_switch.py): one process builds steppers in float32 and then in float64 (and the other way round);
    # equilibria stay fixed and the mean conserved to the rounding of the mode active at construction
    import json as _json
    import subprocess as _sp
    import sys as _sys
    for _first in ("0", "1"):
        _outp = os.path.join(tlc.SCRATCH, f"c09sw.{os.getpid()}.{_first}.json")
        _env = dict(os.environ, VERIF_C09_FIRST=_first, VERIF_C09_OUT=_outp, JAX_PLATFORMS="cpu")
        _env.pop("JAX_ENABLE_X64", None)
        _pr = _sp.run([_sys.executable, "-m", "harness.checks.c09_switch"], env=_env, capture_output=True, text=True, timeout=1800,
                      cwd=os.path.dirname(os.path.dirname(os.path.dirname(os.path.abspath(__file__)))))
        if _pr.returncode != 0 or not os.path.exists(_outp):
            raise RuntimeError("precision-switch child failed:\n" + _pr.stdout[-1500:] + _pr.stderr[-1500:])
        _res = _json.load(open(_outp))
        os.remove(_outp)
        for _ph in _res["phases"]:
            for _c in _ph["cases"]:
                run_.case(("precision-switch", _first, _ph["x64"], _c["what"], _c["cls"], _c["order"]))
                if _c["dtype"] != ("float64" if _ph["x64"] else "float32") or not _c["err_over_eps"] <= 2000:
                    run_.violation({"kind": "precision-switch", "what": _c["what"], "cls": _c["cls"], "order": _c["order"],
                                    "mode": ("float64" if _ph["x64"] else "float32") + (" phase, first" if str(int(_ph["x64"])) == _first else " phase, after the other mode")},
                                   {"dtype": _c["dtype"], "error_in_units_of_eps": _c["err_over_eps"]})
    return run_.finish()


def replay(path):
    return run("quick", 0)
