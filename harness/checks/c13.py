"""C13 Specific, generic, normalized and difficulty interfaces give the same dynamics."""
from __future__ import annotations

import os
import shutil

import numpy as np

from .. import linear, registry, tlc, zoo
from ..evidence import Run
from ..num import fq, maxabs, setup_jax
from ..tlaval import iter_dump_states

PID = "C13"


def rel(a, b):
    return maxabs(np.asarray(a) - np.asarray(b)) / (1 + maxabs(b))


def check_conversions_large(run, ex):
    """The documented formula gamma_j = alpha_j N^j 2^(j-1) D (gamma_0 = alpha_0) for fine grids and high orders, where N^j leaves the
    range of 32- and 64-bit integers (exact rationals in Python; the TLC table MC_Convert covers N <= 64, orders <= 6)."""
    from fractions import Fraction
    G = ex.stepper.generic
    for D in (1, 2, 3):
        for N in (220, 256, 1500, 4096):
            for J in (4, 6, 8):
                alpha = [Fraction(-1) ** (j // 2 + 1) * Fraction(3, 7) / Fraction(N) ** j for j in range(J + 1)]
                gamma = [alpha[0]] + [alpha[j] * N ** j * 2 ** (j - 1) * D for j in range(1, J + 1)]
                run.case(("convert-large", D, N, J))
                key = {"kind": "conversion", "order": J, "D": D, "what": "fine grid / high order"}
                rc = G.reduce_normalized_coefficients_to_difficulty(tuple(float(a) for a in alpha), num_spatial_dims=D, num_points=N)
                ec = G.extract_normalized_coefficients_from_difficulty(tuple(float(g) for g in gamma), num_spatial_dims=D, num_points=N)
                for j in range(J + 1):
                    if not abs(float(rc[j]) - float(gamma[j])) <= 1e-11 * abs(float(gamma[j])):
                        run.violation(dict(key, symbol="reduce_normalized_coefficients_to_difficulty"), {"N": N, "j": j, "got": float(rc[j]), "want": float(gamma[j])})
                        break
                    if not abs(float(ec[j]) - float(alpha[j])) <= 1e-11 * abs(float(alpha[j])):
                        run.violation(dict(key, symbol="extract_normalized_coefficients_from_difficulty"), {"N": N, "j": j, "got": float(ec[j]), "want": float(alpha[j])})
                        break
            # the dissipative difficulty stepper stays dissipative on fine grids (even orders: the sign of the difficulty decides)
            if D == 1:
                for order, diff in ((2, 1.0), (4, -1.0), (6, 1.0), (8, -1.0)):
                    st = G.DifficultyLinearStepperSimple(1, N, difficulty=diff, order=order)
                    m = np.asarray(st.step_fourier(np.ones((1, N // 2 + 1), dtype=complex)))[0]
                    run.case(("difficulty-large", N, order))
                    if not (np.all(np.isfinite(m)) and np.all(np.abs(m) <= 1 + 1e-12) and abs(abs(m[N // 2]) - np.exp(-abs(diff) * (np.pi) ** order / 2 ** (order - 1))) < 1e-9):
                        run.violation({"kind": "conversion", "order": order, "D": 1, "what": "DifficultyLinearStepperSimple on a fine grid"},
                                      {"N": N, "max_modulus": float(np.max(np.abs(m))), "nyquist_modulus": float(abs(m[N // 2]))})


def check_conversions(run, states, ex):
    G = ex.stepper.generic
    nsamp = 0
    for st in states:
        j, a, L, dt, D, N, M = st["j"], float(fq(st["a"])), float(fq(st["L"])), float(fq(st["dt"])), st["D"], st["N"], float(fq(st["M"]))
        r = {k: float(fq(v)) for k, v in st["row"].items()}
        run.case(("convert", j, a, L, dt, D, N, M))
        key = {"kind": "conversion", "order": j, "D": D}
        co = [0.0] * j + [a]

        def close(x, y):
            return abs(x - y) <= 1e-12 * max(1.0, abs(y))
        nc = G.normalize_coefficients(tuple(co), domain_extent=L, dt=dt)
        if not close(nc[j], r["alpha"]) or any(x != 0 for x in nc[:j]):
            run.violation(dict(key, what="normalize_coefficients"), {"got": nc[j], "want": r["alpha"]})
        dc = G.denormalize_coefficients(tuple([0.0] * j + [r["alpha"]]), domain_extent=L, dt=dt)
        if not close(dc[j], a):
            run.violation(dict(key, what="denormalize_coefficients"), {"got": dc[j], "want": a})
        rc = G.reduce_normalized_coefficients_to_difficulty(tuple([0.0] * j + [r["alpha"]]), num_spatial_dims=D, num_points=N)
        if not close(rc[j], r["gamma"]):
            run.violation(dict(key, what="reduce_normalized_coefficients_to_difficulty"), {"got": rc[j], "want": r["gamma"]})
        ec = G.extract_normalized_coefficients_from_difficulty(tuple([0.0] * j + [r["gamma"]]), num_spatial_dims=D, num_points=N)
        if not close(ec[j], r["alpha"]):
            run.violation(dict(key, what="extract_normalized_coefficients_from_difficulty"), {"got": ec[j], "want": r["alpha"]})
        if j == 0:
            pairs = [
                ("normalize_convection_scale", G.normalize_convection_scale(a, domain_extent=L, dt=dt), r["beta1"]),
                ("denormalize_convection_scale", G.denormalize_convection_scale(r["beta1"], domain_extent=L, dt=dt), a),
                ("normalize_gradient_norm_scale", G.normalize_gradient_norm_scale(a, domain_extent=L, dt=dt), r["beta2"]),
                ("denormalize_gradient_norm_scale", G.denormalize_gradient_norm_scale(r["beta2"], domain_extent=L, dt=dt), a),
                ("reduce_normalized_convection_scale_to_difficulty",
                 G.reduce_normalized_convection_scale_to_difficulty(r["beta1"], num_spatial_dims=D, num_points=N, maximum_absolute=M), r["delta1"]),
                ("extract_normalized_convection_scale_from_difficulty",
                 G.extract_normalized_convection_scale_from_difficulty(r["delta1"], num_spatial_dims=D, num_points=N, maximum_absolute=M), r["beta1"]),
                ("reduce_normalized_gradient_norm_scale_to_difficulty",
                 G.reduce_normalized_gradient_norm_scale_to_difficulty(r["beta2"], num_spatial_dims=D, num_points=N, maximum_absolute=M), r["delta2"]),
                ("extract_normalized_gradient_norm_scale_from_difficulty",
                 G.extract_normalized_gradient_norm_scale_from_difficulty(r["delta2"], num_spatial_dims=D, num_points=N, maximum_absolute=M), r["beta2"]),
                ("normalize_polynomial_scales", G.normalize_polynomial_scales((a,), dt=dt)[0], r["poly"]),
                ("denormalize_polynomial_scales", G.denormalize_polynomial_scales((r["poly"],), dt=dt)[0], a),
            ]
            U = getattr(G, "_utils", None)
            if U is not None and hasattr(U, "reduce_normalized_nonlinear_scales_to_difficulty"):
                ns = U.reduce_normalized_nonlinear_scales_to_difficulty((a, r["beta1"], r["beta2"]), num_spatial_dims=D, num_points=N, maximum_absolute=M)
                pairs += [("reduce_normalized_nonlinear_scales_to_difficulty[0]", ns[0], a),
                          ("reduce_normalized_nonlinear_scales_to_difficulty[1]", ns[1], r["delta1"]),
                          ("reduce_normalized_nonlinear_scales_to_difficulty[2]", ns[2], r["delta2"])]
                es = U.extract_normalized_nonlinear_scales_from_difficulty((a, r["delta1"], r["delta2"]), num_spatial_dims=D, num_points=N, maximum_absolute=M)
                pairs += [("extract_normalized_nonlinear_scales_from_difficulty[1]", es[1], r["beta1"]),
                          ("extract_normalized_nonlinear_scales_from_difficulty[2]", es[2], r["beta2"])]
            for nm, got, want in pairs:
                if not close(got, want):
                    run.violation(dict(key, what=nm), {"got": got, "want": want, "L": L, "dt": dt, "N": N, "M": M})
        if nsamp < 3 and j == 2:
            run.sample({"order": j, "a": a, "L": L, "dt": dt, "D": D, "N": N, "spec_row": r})
            nsamp += 1


def pairs(D, rng):
    """(specific name, specific kwargs, generic name, generic kwargs) - the documented equivalences (stepper overview)"""
    nu, c, xi, ze = 0.05, 0.8, 0.02, 0.001
    S, Gn = [], None
    out = [
        ("Advection", dict(velocity=c), "GeneralLinearStepper", dict(linear_coefficients=(0.0, -c))),
        ("Diffusion", dict(diffusivity=nu), "GeneralLinearStepper", dict(linear_coefficients=(0.0, 0.0, nu))),
        ("AdvectionDiffusion", dict(velocity=c, diffusivity=nu), "GeneralLinearStepper", dict(linear_coefficients=(0.0, -c, nu))),
        ("Dispersion", dict(dispersivity=xi), "GeneralLinearStepper", dict(linear_coefficients=(0.0, 0.0, 0.0, xi))),
        ("HyperDiffusion", dict(hyper_diffusivity=ze), "GeneralLinearStepper", dict(linear_coefficients=(0.0, 0.0, 0.0, 0.0, -ze))),
        ("Diffusion", dict(diffusivity=nu), "GeneralConvectionStepper", dict(linear_coefficients=(0.0, 0.0, nu), convection_scale=0.0, single_channel=True)),
    ]
    for flags in (dict(single_channel=False, conservative=False), dict(single_channel=True, conservative=False),
                  dict(single_channel=False, conservative=True), dict(single_channel=True, conservative=True)):
        out.append(("Burgers", dict(diffusivity=nu, convection_scale=1.3, **flags), "GeneralConvectionStepper",
                    dict(linear_coefficients=(0.0, 0.0, nu), convection_scale=1.3, **flags)))
        out.append(("KortewegDeVries", dict(diffusivity=nu, convection_scale=-2.0, dispersivity=xi, hyper_diffusivity=ze, **flags), "GeneralConvectionStepper",
                    dict(linear_coefficients=(0.0, 0.0, nu, -xi, -ze), convection_scale=-2.0, **flags)))
        out.append(("KuramotoSivashinskyConservative", dict(convection_scale=0.9, second_order_scale=0.03, fourth_order_scale=0.0004, **flags),
                    "GeneralConvectionStepper", dict(linear_coefficients=(0.0, 0.0, -0.03, 0.0, -0.0004), convection_scale=0.9, **flags)))
    # the requested dealiasing fraction is part of the configuration: with weaker (or no) dealiasing the forms of the convection term are different
    # discretisations, and both interfaces must realise the one that was asked for
    for flags, frac in ((dict(single_channel=False, conservative=False), 1.0), (dict(single_channel=True, conservative=True), 0.85),
                        (dict(single_channel=True, conservative=False), 0.85), (dict(single_channel=False, conservative=True), 1.0)):
        out.append(("Burgers", dict(diffusivity=nu, convection_scale=1.3, dealiasing_fraction=frac, **flags), "GeneralConvectionStepper",
                    dict(linear_coefficients=(0.0, 0.0, nu), convection_scale=1.3, dealiasing_fraction=frac, **flags)))
    out.append(("KortewegDeVries", dict(diffusivity=nu, convection_scale=-2.0, dispersivity=xi, hyper_diffusivity=ze, dealiasing_fraction=1.0), "GeneralConvectionStepper",
                dict(linear_coefficients=(0.0, 0.0, nu, -xi, -ze), convection_scale=-2.0, dealiasing_fraction=1.0)))
    out.append(("KuramotoSivashinsky", dict(gradient_norm_scale=0.7, second_order_scale=0.03, fourth_order_scale=0.0004, dealiasing_fraction=0.85), "GeneralGradientNormStepper",
                dict(linear_coefficients=(0.0, 0.0, -0.03, 0.0, -0.0004), gradient_norm_scale=0.7, dealiasing_fraction=0.85)))
    out.append(("KuramotoSivashinsky", dict(gradient_norm_scale=0.7, second_order_scale=0.03, fourth_order_scale=0.0004), "GeneralGradientNormStepper",
                dict(linear_coefficients=(0.0, 0.0, -0.03, 0.0, -0.0004), gradient_norm_scale=0.7)))
    out.append(("FisherKPP", dict(diffusivity=nu, reactivity=1.5), "GeneralPolynomialStepper",
                dict(linear_coefficients=(1.5 / D, 0.0, nu), polynomial_coefficients=(0.0, 0.0, -1.5))))
    out.append(("AllenCahn", dict(diffusivity=nu, first_order_coefficient=0.8, third_order_coefficient=-1.2, dealiasing_fraction=1 / 2), "GeneralPolynomialStepper",
                dict(linear_coefficients=(0.8 / D, 0.0, nu), polynomial_coefficients=(0.0, 0.0, 0.0, -1.2), dealiasing_fraction=1 / 2)))
    if D == 1:
        out.append(("SwiftHohenberg", dict(reactivity=0.7, critical_number=0.5, polynomial_coefficients=(0.0, 0.0, 1.0, -1.0)), "GeneralPolynomialStepper",
                    dict(linear_coefficients=(0.7 - 0.25, 0.0, -1.0, 0.0, -1.0), polynomial_coefficients=(0.0, 0.0, 1.0, -1.0), dealiasing_fraction=1 / 2)))
        out.append(("Burgers", dict(diffusivity=nu, convection_scale=1.3, conservative=True), "GeneralNonlinearStepper",
                    dict(linear_coefficients=(0.0, 0.0, nu), nonlinear_coefficients=(0.0, -1.3, 0.0))))
    out.append(("KuramotoSivashinsky", dict(gradient_norm_scale=0.7, second_order_scale=0.03, fourth_order_scale=0.0004), "GeneralNonlinearStepper",
                dict(linear_coefficients=(0.0, 0.0, -0.03, 0.0, -0.0004), nonlinear_coefficients=(0.0, 0.0, -0.7))))
    # non-default options on both sides: in 1D the mixed KdV forms coincide with the unmixed one (dispersivity != 1); the reaction steppers and
    # the generic polynomial stepper honour the same requested dealiasing fraction
    if D == 1:
        out.append(("KortewegDeVries", dict(convection_scale=-2.0, diffusivity=nu, dispersivity=0.6, hyper_diffusivity=ze, advect_over_diffuse=True, diffuse_over_diffuse=True),
                    "GeneralConvectionStepper", dict(linear_coefficients=(0.0, 0.0, nu, -0.6, -ze), convection_scale=-2.0)))
    out.append(("FisherKPP", dict(diffusivity=nu, reactivity=1.5, dealiasing_fraction=1.0), "GeneralPolynomialStepper",
                dict(linear_coefficients=(1.5 / D, 0.0, nu), polynomial_coefficients=(0.0, 0.0, -1.5), dealiasing_fraction=1.0)))
    out.append(("AllenCahn", dict(diffusivity=nu, first_order_coefficient=0.8, third_order_coefficient=-1.2, dealiasing_fraction=2 / 3), "GeneralPolynomialStepper",
                dict(linear_coefficients=(0.8 / D, 0.0, nu), polynomial_coefficients=(0.0, 0.0, 0.0, -1.2), dealiasing_fraction=2 / 3)))
    # the zeroth-order (reaction / drag) coefficient: every generic family documents the same linear operator Sum_j a_j Sum_d (d/dx_d)^j,
    # i.e. D * a_0 at order 0; Fisher-KPP r u (1 - u) is also the general nonlinear stepper with b_0 = -r
    out.append(("FisherKPP", dict(diffusivity=nu, reactivity=1.5), "GeneralNonlinearStepper",
                dict(linear_coefficients=(1.5 / D, 0.0, nu), nonlinear_coefficients=(-1.5, 0.0, 0.0))))
    lin0 = (-0.4, -c if D == 1 else 0.0, nu)
    for fam, fkw in (("GeneralConvectionStepper", dict(convection_scale=0.0, single_channel=True)),
                     ("GeneralGradientNormStepper", dict(gradient_norm_scale=0.0)),
                     ("GeneralPolynomialStepper", dict(polynomial_coefficients=(0.0, 0.0, 0.0))),
                     ("GeneralNonlinearStepper", dict(nonlinear_coefficients=(0.0, 0.0, 0.0)))):
        out.append(("GeneralLinearStepper", dict(linear_coefficients=lin0), fam, dict(linear_coefficients=lin0, **fkw)))
    out.append(("Burgers", dict(diffusivity=nu, convection_scale=1.3, single_channel=True, conservative=True), "GeneralNonlinearStepper",
                dict(linear_coefficients=(0.0, 0.0, nu), nonlinear_coefficients=(0.0, -1.3, 0.0))))
    if D == 2:
        out.append(("NavierStokesVorticity", dict(diffusivity=nu, drag=-0.1, vorticity_convection_scale=1.2), "GeneralVorticityConvectionStepper",
                    dict(linear_coefficients=(-0.1 / 2, 0.0, nu), vorticity_convection_scale=1.2)))
        for inj in (0.8, -0.25):
            out.append(("KolmogorovFlowVorticity", dict(diffusivity=nu, drag=-0.1, convection_scale=1.2, injection_mode=2, injection_scale=inj),
                        "GeneralVorticityConvectionStepper", dict(linear_coefficients=(-0.1 / 2, 0.0, nu), vorticity_convection_scale=1.2, injection_mode=2,
                                                                  injection_scale=inj)))
    del S, Gn
    return out


def to_normalized(gname, gkw, D, N, L, dt, M=1.0):
    """(normalized name, kwargs), (difficulty name, kwargs) equivalent to the physical generic stepper"""
    a = gkw["linear_coefficients"]
    al = tuple(c * dt / L ** j for j, c in enumerate(a))
    ga = tuple(al[j] if j == 0 else al[j] * N ** j * 2 ** (j - 1) * D for j in range(len(al)))
    flags = {k: v for k, v in gkw.items() if k in ("single_channel", "conservative", "dealiasing_fraction")}
    if gname == "GeneralLinearStepper":
        return ("NormalizedLinearStepper", dict(normalized_linear_coefficients=al)), ("DifficultyLinearStepper", dict(linear_difficulties=ga))
    if gname == "GeneralConvectionStepper":
        b = gkw["convection_scale"] * dt / L
        return (("NormalizedConvectionStepper", dict(normalized_linear_coefficients=al, normalized_convection_scale=b, **flags)),
                ("DifficultyConvectionStepper", dict(linear_difficulties=ga, convection_difficulty=b * M * N * D, maximum_absolute=M, **flags)))
    if gname == "GeneralGradientNormStepper":
        b = gkw["gradient_norm_scale"] * dt / L ** 2
        fr = {k: v for k, v in flags.items() if k == "dealiasing_fraction"}
        return (("NormalizedGradientNormStepper", dict(normalized_linear_coefficients=al, normalized_gradient_norm_scale=b, **fr)),
                ("DifficultyGradientNormStepper", dict(linear_difficulties=ga, gradient_norm_difficulty=b * M * N ** 2 * D, maximum_absolute=M, **fr)))
    if gname == "GeneralPolynomialStepper":
        p = tuple(c * dt for c in gkw["polynomial_coefficients"])
        return (("NormalizedPolynomialStepper", dict(normalized_linear_coefficients=al, normalized_polynomial_coefficients=p, **flags)),
                ("DifficultyPolynomialStepper", dict(linear_difficulties=ga, polynomial_difficulties=p, **flags)))
    if gname == "GeneralNonlinearStepper":
        b = gkw["nonlinear_coefficients"]
        nb = (b[0] * dt, b[1] * dt / L, b[2] * dt / L ** 2)
        fr = {k: v for k, v in flags.items() if k == "dealiasing_fraction"}
        return (("NormalizedNonlinearStepper", dict(normalized_linear_coefficients=al, normalized_nonlinear_coefficients=nb, **fr)),
                ("DifficultyNonlinearStepper", dict(linear_difficulties=ga, nonlinear_difficulties=(nb[0], nb[1] * M * N * D, nb[2] * M * N ** 2 * D),
                                                    maximum_absolute=M, **fr)))
    return (None, None), (None, None)


def rescale(gname, gkw, s, t):
    """(L, dt, coefficients) -> (s L, t dt, rescaled coefficients): the same non-dimensional groups"""
    kw = dict(gkw)
    kw["linear_coefficients"] = tuple(c * s ** j / t for j, c in enumerate(gkw["linear_coefficients"]))
    if "convection_scale" in kw:
        kw["convection_scale"] = gkw["convection_scale"] * s / t
    if "gradient_norm_scale" in kw:
        kw["gradient_norm_scale"] = gkw["gradient_norm_scale"] * s ** 2 / t
    if "polynomial_coefficients" in kw:
        kw["polynomial_coefficients"] = tuple(c / t for c in gkw["polynomial_coefficients"])
    if "nonlinear_coefficients" in kw:
        b = gkw["nonlinear_coefficients"]
        kw["nonlinear_coefficients"] = (b[0] / t, b[1] * s / t, b[2] * s ** 2 / t)
    if "vorticity_convection_scale" in kw:
        return None
    return kw


def check_steppers(run, ex, jnp, rng, tier):
    nsamp = 0
    for D in (1, 2, 3):
        for N in zoo.grid_sizes(D, tier)[:2]:
            for pi_, (sname, skw, gname, gkw) in enumerate(pairs(D, rng)):
                if D not in registry.dims_of(sname) or D not in registry.dims_of(gname):
                    continue
                if tier != "quick" and pi_ % 4 == 0:
                    import jax as _jax
                    _jax.clear_caches()          # thousands of distinct compiled steppers otherwise exhaust the process's memory maps (LLVM: cannot allocate memory)
                L, dt = float(rng.choice([3.0, 2 * np.pi, 0.8])), float(rng.choice([0.05, 0.01]))
                orders = (0, 1, 2, 3, 4) if registry.has_order(registry.stepper_classes()[gname]) else (None,)
                if tier == "quick" and D > 1:
                    orders = tuple(o for o in orders if o in (None, 0, 2, 3))
                for order in orders:
                    okw = {} if order is None or not registry.has_order(registry.stepper_classes()[sname]) else dict(order=order)
                    if order not in (None,) and not registry.has_order(registry.stepper_classes()[sname]) and order != 0:
                        continue
                    try:
                        sp = registry.make(sname, D, N, L=L, dt=dt, **okw, **skw)
                        ge = registry.make(gname, D, N, L=L, dt=dt, order=order, **gkw)
                    except Exception as e:  # noqa: BLE001
                        run.violation({"kind": "constructor", "cls": sname, "generic": gname, "D": D}, {"exc": repr(e)[:300]})
                        continue
                    C = sp.num_channels
                    u = jnp.asarray(zoo.white_noise(rng, C, D, N, amp=0.5))
                    base = np.asarray(sp(u))
                    key = {"kind": "equivalence", "cls": sname, "generic": gname, "D": D, "order": order, "flags": str({k: v for k, v in skw.items() if isinstance(v, bool)})}
                    run.case(("pair", sname, str(skw), gname, D, N, order))
                    e1 = rel(ge(u), base)
                    if ge.num_channels != C or e1 > 1e-10:
                        run.violation(dict(key, what="specific != generic"), {"N": N, "L": L, "dt": dt, "err": e1})
                    (nn, nkw), (dn, dkw) = to_normalized(gname, gkw, D, N, L, dt, M=1.5)
                    if nn is not None:
                        no = registry.make(nn, D, N, order=order, **nkw)
                        di = registry.make(dn, D, N, order=order, **dkw)
                        e2, e3 = rel(no(u), base), rel(di(u), base)
                        if e2 > 1e-10:
                            run.violation(dict(key, what="normalized != physical", interface=nn), {"N": N, "L": L, "dt": dt, "err": e2})
                        if e3 > 1e-10:
                            run.violation(dict(key, what="difficulty != physical", interface=dn), {"N": N, "L": L, "dt": dt, "err": e3})
                    # the same three interfaces on a very large and a very small box (normalized coefficients a dt / L^j down to 1e-13 and up to 1e+7
                    # are legitimate values, not "inactive" terms); one order per pair
                    if nn is not None and order in (None, 2) and D <= 2:
                        for L2, dt2 in ((300.0, 0.01), (0.02, 1e-6 if D == 1 else 1e-5)):
                            try:
                                ph = registry.make(gname, D, N, L=L2, dt=dt2, order=order, **gkw)
                                (nn2, nkw2), (dn2, dkw2) = to_normalized(gname, gkw, D, N, L2, dt2, M=1.5)
                                b2 = np.asarray(ph(u))
                                e5 = rel(registry.make(nn2, D, N, order=order, **nkw2)(u), b2)
                                e6 = rel(registry.make(dn2, D, N, order=order, **dkw2)(u), b2)
                            except Exception as e:  # noqa: BLE001
                                run.violation(dict(key, what="extreme box: raised"), {"L": L2, "dt": dt2, "exc": repr(e)[:300]})
                                continue
                            run.case(("pair-extreme", sname, str(skw), gname, D, N, order, L2))
                            if not np.all(np.isfinite(b2)):
                                continue          # the white-noise state is not resolved by this step at all: nothing to compare
                            if e5 > 1e-10:
                                run.violation(dict(key, what="normalized != physical", interface=nn2, box="extreme"), {"N": N, "L": L2, "dt": dt2, "err": e5})
                            if e6 > 1e-10:
                                run.violation(dict(key, what="difficulty != physical", interface=dn2, box="extreme"), {"N": N, "L": L2, "dt": dt2, "err": e6})
                    rk = rescale(gname, gkw, 2.5, 0.4)
                    if rk is not None:
                        g2 = registry.make(gname, D, N, L=2.5 * L, dt=0.4 * dt, order=order, **rk)
                        e4 = rel(g2(u), base)
                        if e4 > 1e-9:
                            run.violation(dict(key, what="result depends on more than the non-dimensional groups"), {"err": e4})
                    if nsamp < 3:
                        run.sample({"specific": sname, "specific_kwargs": {k: str(v) for k, v in skw.items()}, "generic": gname,
                                    "generic_kwargs": {k: str(v) for k, v in gkw.items()}, "D": D, "N": N, "order": order, "err": e1})
                        nsamp += 1


def run(tier: str, seed: int) -> int:
    run_ = Run(PID, tier, seed)
    setup_jax(True)
    import jax.numpy as jnp
    import exponax as ex
    rng = np.random.default_rng(seed)
    work = os.path.join(tlc.SCRATCH, f"c13.{os.getpid()}")
    os.makedirs(work, exist_ok=True)
    res = linear.run_model(run_, tier, work, maxt=0)       # EquivOK, GroupOK among the invariants
    tlc.cleanup(res)
    cfg = os.path.join(work, "MC_Convert.cfg")
    tlc.write_cfg(cfg, constants={"Nset": "{5, 8, 12}" if tier == "quick" else "{4, 5, 7, 8, 9, 12}", "MaxOrder": 5, "Big": "FALSE"},
                  invariants=["InverseOK", "FormulaOK"])
    res = tlc.run_tlc("MC_Convert", cfg, workers=4, dump=True, timeout=900)
    run_.add_tlc(res, "MC_Convert")
    if not res.ok:
        run_.violation({"kind": "spec", "invariant": res.violated}, {"trace": res.trace_text})
    states = list(iter_dump_states(res.dump))
    tlc.cleanup(res)
    check_conversions(run_, states, ex)
    check_conversions_large(run_, ex)
    run_.traces += len(states)
    check_steppers(run_, ex, jnp, rng, tier)
    run_.rule = ("conversion cases: every TLC state of MC_Convert (order, coefficient, L, dt, D, N, M) against all normalize/denormalize/reduce/extract "
                 "functions; stepper cases: every documented (specific, generic) pair x flags x D x N x order 0-4 on a white-noise state, plus the "
                 "normalized and difficulty interfaces built with the specification's formulas and a rescaled (L, dt, coefficients) triple")
    run_.assumptions = ["code-vs-code tolerance 1e-10 relative; each side is bound to the specification through C01-C03", "float evaluation of the rational rows"]
    shutil.rmtree(work, ignore_errors=True)
    return run_.finish()


def replay(path):
    return run("quick", 0)
