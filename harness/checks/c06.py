"""C06 Results are invariant under jit, vmap and scan composition.

MC_Programs (TLC) enumerates every program shape {jit inside/outside} x {no loop, rollout (+-init), repeat} x {no batch, mapped stepper
rolled out, rolled-out stepper mapped} x {shared stepper, one stepper per lane built from its own constructor parameters} x n x B, executes
it on the injective integer bookkeeping stepper under every lane interleaving and checks provenance, output, axis order, transpose and
repeat invariants.  Every terminal state is replayed (A) with real JAX/equinox transformations over an integer equinox module (exact
equality with the specification's output, which also fixes the index map (lane, time) -> output position), and (B) over every public
stepper class against the eager, one-at-a-time Python loop of the same code, with the specification's index map; batch independence is
checked by perturbing one lane and requiring bit-identical results on the others; every scalar constructor argument (and dt, and the
last non-zero entry of every coefficient tuple) of every class is swept under eqx.filter_vmap."""
from __future__ import annotations

import inspect
import os
import shutil

import numpy as np

from .. import registry, tlc
from ..evidence import Run
from ..num import setup_jax
from ..tlaval import iter_dump_states

PID = "C06"
INVS = ["ProvenanceOK", "OutputOK", "ShapeOK", "TransposeOK", "RepeatOK"]
SKIP_ARGS = set()      # every float constructor argument is swept, the numerical configuration (dealiasing_fraction, circle_radius) included
# values used for arguments whose interesting points are not multiples of the default
SPECIAL_VALUES = {"dealiasing_fraction": (2 / 3, 1.0, 0.5), "circle_radius": (1.0, 1.5, 0.75),
                  "domain_extent": (6.2832, 2.0, 6.283185307179586)}      # near (not at) 2 pi, generic, exactly 2 pi
RTOL = 1e-9


def u0(b):
    return 10 * b + 1


def lane_par(prog, b):
    return (b + 1, 3 * b + 1) if prog["vp"] else (2, 1)


def closed(prog, b, t):
    a, c = lane_par(prog, b)
    u = u0(b)
    for _ in range(t):
        u = a * u + c
    return u


def index_map(prog, out):
    """{position tuple in the output: (lane, time)} recovered from the specification's integer output (the values are injective)."""
    table = {}
    for b in range(1, prog["B"] + 1):
        for t in range(0, prog["n"] + 1):
            table.setdefault(closed(prog, b, t), (b, t))
    arr = np.array(out, dtype=np.int64)
    return arr, {idx: table[int(v)] for idx, v in np.ndenumerate(arr)}


def build_program(eqx, jax, ex, prog, make, lane_args, common_arg):
    """The program of record `prog` over steppers built by make(arg). Returns f(U) with U of shape (B, ...)."""
    n, loop, init, vm, vp = prog["n"], prog["loop"], prog["init"], prog["vm"], prog["vp"]

    def looped(step):
        if loop == "none":
            return step
        if loop == "rollout":
            return ex.rollout(step, n, include_init=init)
        return ex.repeat(step, n)

    def jin(s):
        return eqx.filter_jit(s) if prog["jit_in"] else s
    if vm == "none":
        f0 = looped(jin(make(common_arg)))
        f = lambda U: f0(U[0])  # noqa: E731
    elif not vp:
        step = jin(make(common_arg))
        f = looped(jax.vmap(step)) if vm == "inner" else jax.vmap(looped(step))
    else:
        S = eqx.filter_vmap(make)(lane_args)
        if vm == "inner":
            f = looped(jin(lambda U: eqx.filter_vmap(lambda s, u: s(u))(S, U)))
        else:
            f = lambda U: eqx.filter_vmap(lambda s, u: looped(jin(s))(u))(S, U)  # noqa: E731
    return eqx.filter_jit(f) if prog["jit_out"] else f


def sweep_args(cls):
    """[(argument name, how to build the kwargs from a scalar value, default scalar)] for every sweepable constructor argument."""
    out = []
    sig = inspect.signature(cls.__init__)
    for k, v in sig.parameters.items():
        if k in SKIP_ARGS:
            continue
        d = v.default
        if isinstance(d, float):
            out.append((k, (lambda name: (lambda x: {name: x}))(k), d if d != 0.0 else 0.5))
        elif isinstance(d, tuple) and d and all(isinstance(x, (int, float)) for x in d):
            nz = [i for i, x in enumerate(d) if x != 0.0]
            i = nz[-1] if nz else len(d) - 1
            base = float(d[i]) if d[i] != 0.0 else 0.1

            def mk(x, name=k, d=d, i=i):
                return {name: tuple(x if j == i else float(y) for j, y in enumerate(d))}
            out.append((f"{k}[{i}]", mk, base))
    return out


def run(tier: str, seed: int) -> int:
    run_ = Run(PID, tier, seed)
    jax = setup_jax(True)
    import equinox as eqx
    import jax.numpy as jnp
    import exponax as ex
    import warnings
    warnings.filterwarnings("ignore", category=UserWarning, module="equinox")
    rng = np.random.default_rng(seed)
    work = os.path.join(tlc.SCRATCH, f"c06.{os.getpid()}")
    os.makedirs(work, exist_ok=True)
    cfg = os.path.join(work, "MC_Programs.cfg")
    tlc.write_cfg(cfg, spec="Spec", constants={"MaxN": 3, "MaxB": 3, "MaxHist": 2 if tier == "quick" else 3}, invariants=INVS)
    res = tlc.run_tlc("MC_Programs", cfg, workers=8, dump=True, timeout=3000, coverage=True)
    run_.add_tlc(res, "MC_Programs")
    if not res.ok:
        run_.violation({"kind": "spec", "invariant": res.violated}, {"trace": res.trace_text})
    for act in ("AnyLane", "StepAll", "Emit"):
        if res.coverage.get(act, (0, 0))[0] == 0:
            raise RuntimeError(f"vacuous model: action {act} never taken")
    terminals = [(st["prog"], st["out"]) for st in iter_dump_states(res.dump, must_contain='pc = "done"')]
    histories = sorted(tuple(h) for h in tlc.extract_printed(res.out, "histories")[0])
    tlc.cleanup(res)

    # ---------------------------------------------------------------- (A) integer bookkeeping stepper: exact
    class Affine(eqx.Module):
        a: jax.Array
        c: jax.Array

        def __call__(self, u):
            return self.a * u + self.c

    def make_affine(ac):
        return Affine(ac[0], ac[1])

    progs = []
    for prog, out in terminals:
        B = prog["B"]
        want, imap = index_map(prog, out)
        U = jnp.asarray([[u0(b)] for b in range(1, B + 1)], dtype=jnp.int64)          # state shape (1,) per lane
        lane_args = (jnp.asarray([lane_par(prog, b)[0] for b in range(1, B + 1)], dtype=jnp.int64),
                     jnp.asarray([lane_par(prog, b)[1] for b in range(1, B + 1)], dtype=jnp.int64))
        common = (jnp.asarray(2, dtype=jnp.int64), jnp.asarray(1, dtype=jnp.int64))
        key = {"kind": "integer-program", "what": f"loop={prog['loop']},vm={prog['vm']},vp={prog['vp']}", "mode": f"jit_in={prog['jit_in']},jit_out={prog['jit_out']}"}
        run_.case(("int", repr(sorted(prog.items()))))
        try:
            got = np.asarray(build_program(eqx, jax, ex, prog, make_affine, lane_args, common)(U))
        except Exception as e:  # noqa: BLE001
            run_.violation(key, {"prog": prog, "exception": repr(e)[:500]})
            continue
        got = got.reshape(got.shape[:-1])                                              # drop the trailing state axis
        if got.shape != want.shape or not np.array_equal(got, want):
            run_.violation(key, {"prog": prog, "got": got.tolist(), "want": want.tolist()})
        progs.append((prog, want.shape, imap))
    run_.traces = len(terminals)
    run_.sample({"program": terminals[len(terminals) // 2][0], "spec_output": terminals[len(terminals) // 2][1]})

    # ---------------------------------------------------------------- (B) every public stepper class against the eager loop
    classes = registry.stepper_classes()
    shapes = {1: 16, 2: 8, 3: 6}
    per_class = 6 if tier == "quick" else 40
    uncovered = []
    for name in sorted(classes):
        cls = classes[name]
        D = registry.dims_of(name)[0]
        N = shapes[D]
        C = registry.num_channels(name, D)
        base_kw = {}

        def make_base(_=None, name=name, D=D, N=N):
            return registry.make(name, D, N, L=2.0, dt=0.02)
        try:
            s0 = make_base()
            C = s0.num_channels
        except Exception as e:  # noqa: BLE001
            uncovered.append((name, repr(e)[:200]))
            continue
        sel = [progs[i] for i in rng.permutation(len(progs))]
        sel_novp = [p for p in sel if not p[0]["vp"]][:per_class]
        for pi, (prog, shape, imap) in enumerate(sel_novp):
            B = prog["B"]
            U = rng.standard_normal((B, C) + (N,) * D) * 0.3
            # special states: the exact zero state (a fixed point of unforced equations only) and a constant state in the first lane
            special = ("random", "zero", "constant")[pi % 3]
            if special == "zero":
                U[0] = 0.0
            elif special == "constant":
                U[0] = 0.5
            ref = {}
            for b in range(1, B + 1):
                u = jnp.asarray(U[b - 1])
                ref[(b, 0)] = np.asarray(u)
                for t in range(1, prog["n"] + 1):
                    u = s0(u)
                    ref[(b, t)] = np.asarray(u)
            key = {"kind": "stepper-program", "cls": name, "what": f"loop={prog['loop']},vm={prog['vm']}", "mode": f"jit_in={prog['jit_in']},jit_out={prog['jit_out']}",
                   "symbol": special}
            run_.case(("cls", name, repr(sorted(prog.items()))))
            try:
                f = build_program(eqx, jax, ex, prog, make_base, None, None)
                got = np.asarray(f(jnp.asarray(U)))
            except Exception as e:  # noqa: BLE001
                run_.violation(key, {"prog": prog, "exception": repr(e)[:500]})
                continue
            st_shape = (C,) + (N,) * D
            if got.shape != tuple(shape) + st_shape:
                run_.violation(dict(key, symbol="shape"), {"prog": prog, "got": list(got.shape), "want": list(tuple(shape) + st_shape)})
                continue
            scale = max(1.0, max(float(np.max(np.abs(v))) for v in ref.values()))
            worst = max(float(np.max(np.abs(got[idx] - ref[bt]))) for idx, bt in imap.items()) if imap else 0.0
            if not worst <= RTOL * scale:
                run_.violation(key, {"prog": prog, "max_abs_diff": worst, "scale": scale})
            if prog["vm"] != "none":
                U2 = U.copy()
                U2[0] += 0.1
                got2 = np.asarray(f(jnp.asarray(U2)))
                for idx, (b, t) in imap.items():
                    if b != 1 and not np.array_equal(got2[idx], got[idx]):
                        run_.violation(dict(key, symbol="batch-dependence"), {"prog": prog, "lane": b, "time": t})
                        break
        # ---- constructor-parameter sweeps under filter_vmap
        sweeps = sweep_args(cls)
        if registry.takes_physical(cls):
            sweeps.append(("dt", None, 0.02))
            sweeps.append(("domain_extent", None, 2.0))
        vp_progs = [p for p in sel if p[0]["vp"]]
        for ai, (aname, mk, base) in enumerate(sweeps):
            chosen = vp_progs[ai % len(vp_progs):][:1 if tier == "quick" else 4]
            for prog, shape, imap in chosen:
                B = prog["B"]
                vals = np.asarray([base * (1.0 + 0.25 * b) for b in range(B)])
                if aname in SPECIAL_VALUES:
                    vals = np.asarray(SPECIAL_VALUES[aname][:B])

                # the ETDRK order rotates through 1..4 over the swept arguments (every order builds its own coefficient arrays under the trace)
                ordr = (2, 4, 1, 3)[ai % 4] if registry.has_order(cls) else None

                def make_p(x, name=name, D=D, N=N, mk=mk, aname=aname, ordr=ordr):
                    if aname == "dt":
                        return registry.make(name, D, N, L=2.0, dt=x, order=ordr)
                    if aname == "domain_extent":
                        return registry.make(name, D, N, L=x, dt=0.02, order=ordr)
                    return registry.make(name, D, N, L=2.0, dt=0.02, order=ordr, **mk(x))
                U = rng.standard_normal((B, C) + (N,) * D) * 0.3
                key = {"kind": "parameter-sweep", "cls": name, "symbol": aname, "what": f"loop={prog['loop']},vm={prog['vm']}", "order": ordr}
                run_.case(("sweep", name, aname, ordr, repr(sorted(prog.items()))))
                try:
                    ref = {}
                    for b in range(1, B + 1):
                        sb = make_p(float(vals[b - 1]))
                        u = jnp.asarray(U[b - 1])
                        ref[(b, 0)] = np.asarray(u)
                        for t in range(1, prog["n"] + 1):
                            u = sb(u)
                            ref[(b, t)] = np.asarray(u)
                except Exception as e:  # noqa: BLE001
                    uncovered.append((name, aname, "eager construction failed: " + repr(e)[:200]))
                    break
                try:
                    f = build_program(eqx, jax, ex, prog, make_p, jnp.asarray(vals), None)
                    got = np.asarray(f(jnp.asarray(U)))
                except Exception as e:  # noqa: BLE001
                    run_.violation(dict(key, mode="raised"), {"prog": prog, "exception": f"{type(e).__name__}: {str(e)[:300]}"})
                    continue
                st_shape = (C,) + (N,) * D
                if got.shape != tuple(shape) + st_shape:
                    run_.violation(dict(key, mode="shape"), {"prog": prog, "got": list(got.shape)})
                    continue
                scale = max(1.0, max(float(np.max(np.abs(v))) for v in ref.values()))
                worst = max(float(np.max(np.abs(got[idx] - ref[bt]))) for idx, bt in imap.items())
                if not worst <= RTOL * scale:
                    run_.violation(dict(key, mode="value"), {"prog": prog, "max_abs_diff": worst, "scale": scale, "values": vals.tolist()})
    # ---------------------------------------------------------------- (B') the wrapper steppers over batches of constructor parameters
    for wname, inner, arg, base in (("RepeatedStepper", "Burgers", "diffusivity", 0.05), ("RepeatedStepper", "Diffusion", "diffusivity", 0.1),
                                    ("RepeatedStepper", "KuramotoSivashinsky", "second_order_scale", 1.0)):
        D, N = 1, 16
        vp_progs = [p for p in progs if p[0]["vp"]]
        picks = [vp_progs[i] for i in rng.permutation(len(vp_progs))[:3 if tier == "quick" else 12]]
        for prog, shape, imap in picks:
            B = prog["B"]
            vals = np.asarray([base * (1.0 + 0.5 * b) for b in range(B)])

            def make_w(x, inner=inner, arg=arg):
                return ex.RepeatedStepper(registry.make(inner, D, N, L=2.0, dt=0.02, **{arg: x}), 3)
            C = make_w(float(vals[0])).num_channels
            U = rng.standard_normal((B, C) + (N,) * D) * 0.3
            key = {"kind": "parameter-sweep", "cls": f"{wname}({inner})", "symbol": arg, "what": f"loop={prog['loop']},vm={prog['vm']}"}
            run_.case(("wrapper-sweep", wname, inner, repr(sorted(prog.items()))))
            ref = {}
            for b in range(1, B + 1):
                sb = make_w(float(vals[b - 1]))
                u = jnp.asarray(U[b - 1])
                ref[(b, 0)] = np.asarray(u)
                for t in range(1, prog["n"] + 1):
                    u = sb(u)
                    ref[(b, t)] = np.asarray(u)
            try:
                got = np.asarray(build_program(eqx, jax, ex, prog, make_w, jnp.asarray(vals), None)(jnp.asarray(U)))
                # a batch of wrappers assembled leaf by leaf from eagerly built members must behave like its members
                members = [make_w(float(v)) for v in vals]
                stacked = jax.tree_util.tree_map(lambda *xs: jnp.stack(xs) if eqx.is_array(xs[0]) else xs[0], *members)
                got_st = np.asarray(eqx.filter_vmap(lambda s, u: s(u))(stacked, jnp.asarray(U)))
            except Exception as e:  # noqa: BLE001
                run_.violation(dict(key, mode="raised"), {"prog": prog, "exception": f"{type(e).__name__}: {str(e)[:300]}"})
                continue
            scale = max(1.0, max(float(np.max(np.abs(v))) for v in ref.values()))
            worst = max(float(np.max(np.abs(got[idx] - ref[bt]))) for idx, bt in imap.items())
            worst_st = max(float(np.max(np.abs(got_st[b - 1] - np.asarray(members[b - 1](jnp.asarray(U[b - 1])))))) for b in range(1, B + 1))
            if got.shape != tuple(shape) + (C,) + (N,) * D or not worst <= RTOL * scale:
                run_.violation(dict(key, mode="value"), {"prog": prog, "max_abs_diff": worst, "scale": scale})
            if not worst_st <= RTOL * scale:
                run_.violation(dict(key, mode="stacked-members"), {"max_abs_diff": worst_st, "values": vals.tolist()})
    # ---------------------------------------------------------------- (C) construction histories on cold grid sizes
    fams = ["Burgers", "Diffusion", "KuramotoSivashinsky", "GeneralConvectionStepper", "FisherKPP", "KortewegDeVries", "NavierStokesVorticity",
            "NormalizedLinearStepper", "GrayScott", "Wave"]
    fams = [f for f in fams if f in classes]
    used = set(shapes.values())
    fresh = {1: iter(n for n in range(20, 400) if n not in used), 2: iter(range(10, 200)), 3: iter(range(7, 60))}
    for hi, hist in enumerate(histories):
        name = fams[hi % len(fams)]
        D = registry.dims_of(name)[0]
        N = next(fresh[D])
        cls = classes[name]
        arg = [k for k, mk, base in sweep_args(cls)][:1]
        sw = sweep_args(cls)[0] if sweep_args(cls) else None

        hord = (2, 4, 3, 1)[hi % 4] if registry.has_order(cls) else None

        def make_h(x, name=name, D=D, N=N, sw=sw, hord=hord):
            return registry.make(name, D, N, L=2.0, dt=0.02, order=hord, **(sw[1](x) if sw else {}))
        x0 = sw[2] if sw else 0.0
        u = None
        results = []
        key = {"kind": "construction-history", "cls": name, "what": "->".join(hist)}
        run_.case(("hist", name, hist))
        try:
            for mode in hist:
                if mode == "eager":
                    st = make_h(x0)
                    if u is None:
                        u = jnp.asarray(rng.standard_normal((st.num_channels,) + (N,) * D) * 0.3)
                    results.append(np.asarray(st(u)))
                    continue
                if u is None:
                    C0 = registry.num_channels(name, D)
                    u = jnp.asarray(rng.standard_normal((C0,) + (N,) * D) * 0.3)
                if mode == "jit":
                    results.append(np.asarray(eqx.filter_jit(lambda x, v: make_h(x)(v))(jnp.asarray(x0), u)))
                elif mode == "vmap":
                    results.append(np.asarray(eqx.filter_vmap(lambda x, v: make_h(x)(v))(jnp.asarray([x0, x0]), jnp.stack([u, u])))[1])
                else:
                    results.append(np.asarray(eqx.filter_jit(eqx.filter_vmap(lambda x, v: make_h(x)(v)))(jnp.asarray([x0, x0]), jnp.stack([u, u])))[0])
            ref = np.asarray(make_h(x0)(u))
        except Exception as e:  # noqa: BLE001
            run_.violation(dict(key, mode="raised"), {"N": N, "history": list(hist), "exception": f"{type(e).__name__}: {str(e)[:300]}"})
            continue
        for i, r in enumerate(results):
            if r.shape != ref.shape or not float(np.max(np.abs(r - ref))) <= RTOL * (1 + float(np.max(np.abs(ref)))):
                run_.violation(dict(key, mode="value"), {"N": N, "history": list(hist), "position": i})
                break
    # ---- call histories on host (NumPy) arrays: a step is a function of its arguments; an eager call leaves them alone, so that the compiled / mapped /
    # scanned evaluation of the SAME arrays afterwards gives the same numbers (eager first, then jit, vmap, rollout; physical and Fourier entry points)
    for name in sorted(classes):
        D = 1 if name not in ("NavierStokesVorticity", "KolmogorovFlowVorticity", "NavierStokesVelocity", "KolmogorovFlowVelocity") else \
            (2 if "Vorticity" in name else 3)
        N = 12 if D < 3 else 6
        try:
            base = registry.make(name, D, N, L=2.0, dt=0.01)
        except Exception:  # noqa: BLE001
            continue
        for wname, st, nargs in ((name, base, 1), (f"RepeatedStepper({name})", ex.RepeatedStepper(base, 2), 1), (f"ForcedStepper({name})", ex.ForcedStepper(base), 2)):
            u_np = rng.standard_normal((base.num_channels,) + (N,) * D) * 0.3
            # Nyquist-free with a non-zero mean in every channel: on such states sub-stepping in Fourier space is the one-at-a-time loop
            u_np = np.asarray(ex.ifft(ex.fft(jnp.asarray(u_np)) * ex.spectral.oddball_filter_mask(D, N), num_spatial_dims=D, num_points=N)) + \
                np.linspace(0.2, 0.5, base.num_channels).reshape((-1,) + (1,) * D)
            if wname.startswith("RepeatedStepper"):
                run_.case(("wrapper-vs-loop", wname))
                try:
                    loop = np.asarray(base(base(jnp.asarray(u_np))))
                    got = np.asarray(st(jnp.asarray(u_np)))
                    trj = np.asarray(ex.rollout(st, 2)(jnp.asarray(u_np)))
                    trj_loop = np.asarray(ex.rollout(base, 4)(jnp.asarray(u_np)))[1::2]
                    jit_trj = np.asarray(eqx.filter_jit(ex.rollout(st, 2))(jnp.asarray(u_np)))
                    sc1 = RTOL * 100 * (1 + float(np.max(np.abs(loop))))
                    if not float(np.max(np.abs(got - loop))) <= sc1:
                        run_.violation({"kind": "wrapper-vs-loop", "cls": wname, "mode": "value", "what": "one call vs the eager one-at-a-time loop"}, {})
                    if trj.shape != trj_loop.shape or not float(np.max(np.abs(trj - trj_loop))) <= sc1 * 10 or not float(np.max(np.abs(jit_trj - trj_loop))) <= sc1 * 10:
                        run_.violation({"kind": "wrapper-vs-loop", "cls": wname, "mode": "value", "what": "rollout of the wrapper vs strided rollout of the stepper"}, {})
                except Exception as e:  # noqa: BLE001
                    run_.violation({"kind": "wrapper-vs-loop", "cls": wname, "mode": "raised"}, {"exception": f"{type(e).__name__}: {str(e)[:300]}"})
            args_np = [u_np] + ([rng.standard_normal(u_np.shape) * 0.2] if nargs == 2 else [])
            keep = [a.copy() for a in args_np]
            uh_np = np.asarray(ex.fft(jnp.asarray(u_np)))
            argsh_np = [uh_np] + ([np.asarray(ex.fft(jnp.asarray(args_np[1])))] if nargs == 2 else [])
            keeph = [a.copy() for a in argsh_np]
            key = {"kind": "host-array-history", "cls": wname}
            run_.case(("host", wname))
            try:
                ref = np.asarray(st(*[jnp.asarray(a) for a in keep]))
                e1 = np.asarray(st(*args_np))
                untouched = all(np.array_equal(a, b) for a, b in zip(args_np, keep))
                e2 = np.asarray(st(*args_np))
                j1 = np.asarray(eqx.filter_jit(st)(*args_np))
                v1 = np.asarray(jax.vmap(st)(*[np.stack([a, a]) for a in args_np]))[1]
                f1 = np.asarray(st.step_fourier(*argsh_np))
                untouched_h = all(np.array_equal(a, b) for a, b in zip(argsh_np, keeph))
                f2 = np.asarray(eqx.filter_jit(st.step_fourier)(*argsh_np))
                r1 = np.asarray(ex.rollout(st, 2)(args_np[0]))[0] if nargs == 1 else None
            except Exception as e:  # noqa: BLE001
                run_.violation(dict(key, mode="raised"), {"exception": f"{type(e).__name__}: {str(e)[:300]}"})
                continue
            sc = RTOL * (1 + float(np.max(np.abs(ref))))
            if not untouched or not untouched_h:
                run_.violation(dict(key, mode="an eager call changed its argument"), {"physical": not untouched, "fourier": not untouched_h})
            for nm, r in (("eager", e1), ("eager again", e2), ("jit after eager", j1), ("vmap after eager", v1), ("rollout after eager", r1)):
                if r is not None and (r.shape != ref.shape or not float(np.max(np.abs(r - ref))) <= sc):
                    run_.violation(dict(key, mode="value", what=nm), {})
            if f1.shape != f2.shape or not float(np.max(np.abs(f1 - f2))) <= RTOL * (1 + float(np.max(np.abs(f1)))):
                run_.violation(dict(key, mode="value", what="step_fourier: jit after eager"), {})
    # ---- default (float32) session, stiff / strongly oscillatory linear operators: construction under a trace vs eager construction (c06_f32.py)
    import json as _json
    import subprocess as _sp
    import sys as _sys
    _outp = os.path.join(work, "c06_f32.json")
    _env = dict(os.environ, VERIF_C06_OUT=_outp, JAX_PLATFORMS="cpu")
    _env.pop("JAX_ENABLE_X64", None)
    _pr = _sp.run([_sys.executable, "-m", "harness.checks.c06_f32"], env=_env, capture_output=True, text=True, timeout=1800,
                  cwd=os.path.dirname(os.path.dirname(os.path.dirname(os.path.abspath(__file__)))))
    if _pr.returncode != 0 or not os.path.exists(_outp):
        raise RuntimeError("float32 child failed:\n" + _pr.stdout[-1500:] + _pr.stderr[-1500:])
    for _c in _json.load(open(_outp)):
        run_.case(("f32-construction", _c["cls"]))
        key = {"kind": "construction-under-trace", "cls": _c["cls"], "session": "float32"}
        if "error" in _c:
            run_.violation(dict(key, mode="raised"), {"exception": _c["error"]})
        elif not (_c["finite"] and _c["vmap_rel"] <= 2e-5 and _c["jit_rel"] <= 2e-5):
            run_.violation(dict(key, mode="value"), {k: _c[k] for k in ("vmap_rel", "jit_rel", "finite")})
    run_.extra["construction_histories"] = len(histories)
    run_.extra["uncovered"] = uncovered
    run_.rule = ("integer cases: one per terminal TLC state (program record; exact equality and shape); stepper cases: (class, program) with the eager "
                 "one-at-a-time loop of the same code as oracle and the specification's index map for the axis order; sweep cases: (class, constructor "
                 "argument, program) under eqx.filter_vmap against eagerly built steppers")
    run_.assumptions = ["numbers of real steppers are compared metamorphically (jit/vmap/scan vs eager evaluation of the same code), tolerance 1e-9 x scale",
                        "dealiasing_fraction / circle_radius are static configuration and are not swept", "one (D, N) per class"]
    shutil.rmtree(work, ignore_errors=True)
    return run_.finish()


def replay(path):
    return run("quick", 0)
