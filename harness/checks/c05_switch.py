"""Child of the C05 check: ONE process in which the differential operators are first used in the default (float32) mode and then, after
`jax_enable_x64` is switched on, on the same grids again (and in the other order).  Nothing an operator is built from may remember the
precision mode of an earlier call: in the float64 phase the analytic derivative of a trigonometric polynomial is reproduced to float64
rounding, in the float32 phase the results are float32 with float32 rounding."""
from __future__ import annotations

import json
import os
import sys

import numpy as np


def probe(ex, jnp, x64):
    recs = []
    eps = 2.3e-16 if x64 else 1.2e-7
    for D, N, L in ((1, 16, 2.5), (1, 21, 1.0), (2, 8, 3.0), (2, 9, 0.7), (3, 6, 2.0), (3, 5, 1.3)):
        grid = np.stack(np.meshgrid(*([np.arange(N) * (L / N)] * D), indexing="ij"))
        w = 2 * np.pi / L
        kap = [(1, 2, 1)[:D], (2, -1, 1)[:D]]
        u = sum(np.cos(w * sum(k[d] * grid[d] for d in range(D)) + 0.3 * (i + 1)) for i, k in enumerate(kap))
        ju = jnp.asarray(u[None].astype(np.float64 if x64 else np.float32))
        for order in (1, 2, 3, 6):
            got = np.asarray(ex.derivative(ju, L, order=order)).reshape((D,) + (N,) * D)
            errs = []
            for d in range(D):
                want = sum((w * k[d]) ** order * np.cos(w * sum(k[e] * grid[e] for e in range(D)) + 0.3 * (i + 1) + order * np.pi / 2) for i, k in enumerate(kap))
                errs.append(float(np.max(np.abs(got[d] - want)) / (w * N / 2) ** order))
            recs.append({"what": "derivative", "D": D, "N": N, "order": order, "dtype": str(got.dtype), "err_over_eps": max(errs) / eps})
        sol = np.asarray(ex.poisson.Poisson(D, L, N)(ju))
        lap = np.asarray(ex.derivative(jnp.asarray(sol), L, order=2)).reshape((D,) + (N,) * D).sum(axis=0)
        recs.append({"what": "poisson", "D": D, "N": N, "order": 2, "dtype": str(sol.dtype),
                     "err_over_eps": float(np.max(np.abs(-lap - (u - u.mean())))) / eps / (N / 2) ** 2})
        lo = np.asarray(ex.spectral.build_laplace_operator(ex.spectral.build_derivative_operator(D, L, N), order=2))
        recs.append({"what": "laplace operator", "D": D, "N": N, "order": 2, "dtype": str(lo.dtype), "err_over_eps": 0.0})
    return recs


def main():
    first_x64 = os.environ.get("VERIF_C05_FIRST") == "1"
    os.environ["JAX_PLATFORMS"] = "cpu"
    import jax
    jax.config.update("jax_enable_x64", first_x64)
    import jax.numpy as jnp
    import exponax as ex
    out = {"first_x64": first_x64, "phases": []}
    for x64 in (first_x64, not first_x64):
        jax.config.update("jax_enable_x64", x64)
        out["phases"].append({"x64": x64, "cases": probe(ex, jnp, x64)})
    json.dump(out, open(os.environ["VERIF_C05_OUT"], "w"))


if __name__ == "__main__":
    sys.exit(main())
