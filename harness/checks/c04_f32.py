"""Child process of C04: the table comparison in the default float32 session."""
import json
import os

import numpy as np

from ..evidence import Run
from ..num import setup_jax
from ..tlaval import iter_dump_states
from . import c04


def main():
    setup_jax(False)
    import jax.numpy as jnp
    import exponax as ex
    rows = {}
    for st in iter_dump_states(os.environ["VERIF_C04_LAYOUT_DUMP"]):
        rows.setdefault((st["D"], st["N"]), {})[tuple(st["s"])] = st["row"]
    r = Run("C04", "quick", 0)
    r._known = []
    c04.check_tables(r, rows, ex, jnp, "f32")
    if os.environ.get("VERIF_C04_MASKS_DUMP"):
        c04.check_masks_big(r, os.environ["VERIF_C04_MASKS_DUMP"], ex, "f32")
    c04.check_grids(r, ex, "f32", "quick")
    c04.check_unit_ifft(r, {k: v for k, v in rows.items() if k[1] <= 16}, ex, jnp, "f32", 3e-5)
    c04.check_roundtrip_random(r, ex, jnp, np.random.default_rng(0), "f32", 3e-5)
    json.dump({"violations": r.violations, "evaluations": r.evaluations, "keys": sorted(map(repr, r.nontrivial))},
              open(os.environ["VERIF_C04_OUT"], "w"), default=repr)


if __name__ == "__main__":
    main()
