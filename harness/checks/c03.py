"""C03 Nonlinear terms equal the alias-free projection of the documented operator."""
from __future__ import annotations

import shutil

import numpy as np

from .. import nonlin, tlc
from ..evidence import Run
from ..num import maxabs, setup_jax, wshape

PID = "C03"

QUICK = [
    ("q1", [1006, 1007, 1008, 1009, 1010, 1011, 1012, 1013, 1016, 1017], [t for t in nonlin.ALL_TERMS if t not in ("vort2d", "rot3d", "leray")]),
    ("q2", [2006, 2007, 2008], ["conv_mc_cons", "conv_mc_non", "conv_sc_cons", "conv_sc_non", "gradnorm_fix", "gradnorm_nofix", "poly2", "general_fix",
                                "general_nofix", "vort2d", "leray"]),
    ("q2c", [2008], ["poly3", "cahn_hilliard", "gray_scott"]),
    ("q1h", [1008, 1009, 1012, 1013], ["conv_mc_cons", "conv_mc_non", "conv_sc_cons", "conv_sc_non", "gradnorm_fix", "poly2", "general_fix", "general_nofix"]),
    ("q2h", [2008], ["conv_mc_cons", "conv_sc_non", "gradnorm_nofix", "general_fix", "vort2d"]),
    ("q3", [3006], ["conv_mc_cons", "conv_mc_non", "conv_sc_cons", "gradnorm_fix", "rot3d", "leray", "general_fix"]),
]
THOROUGH = [
    ("t1", list(range(1004, 1029)) + [1032, 1033, 1048, 1049], [t for t in nonlin.ALL_TERMS if t not in ("vort2d", "rot3d", "leray")]),
    ("t2", list(range(2004, 2015)), ["conv_mc_cons", "conv_mc_non", "conv_sc_cons", "conv_sc_non", "gradnorm_fix", "gradnorm_nofix", "poly2",
                                     "general_fix", "general_nofix", "vort2d", "leray"]),
    ("t2c", [2008, 2009, 2012], ["poly3", "cahn_hilliard", "gray_scott"]),
    ("t1h", list(range(1006, 1020)), ["conv_mc_cons", "conv_mc_non", "conv_sc_cons", "conv_sc_non", "gradnorm_fix", "gradnorm_nofix", "poly2", "general_fix", "general_nofix"]),
    ("t2h", [2008, 2009, 2012], ["conv_mc_cons", "conv_mc_non", "conv_sc_cons", "conv_sc_non", "gradnorm_fix", "gradnorm_nofix", "poly2", "general_fix", "general_nofix", "vort2d"]),
    ("t3h", [3008], ["conv_mc_cons", "rot3d", "general_fix"]),
    ("t3", [3004, 3005, 3006, 3007, 3008, 3009], ["conv_mc_cons", "conv_mc_non", "conv_sc_cons", "conv_sc_non", "gradnorm_fix", "poly2", "general_fix",
                                                   "rot3d", "leray"]),
    ("t3c", [3008], ["cahn_hilliard", "gray_scott"]),
]


def replay_states(run, res, ex, jnp, jax, half=False):
    groups = {}
    for term, D, N, inp, pred in nonlin.outputs(res):
        groups.setdefault((term, D, N), []).append((inp, pred))
    nsamp = 0
    for (term, D, N), cases in sorted(groups.items()):
        try:
            fun = nonlin.build(ex, jnp, term, D, N, half=half)
        except Exception as e:  # noqa: BLE001
            run.violation({"kind": "constructor", "term": term, "D": D, "N": N}, {"exc": repr(e)[:300]})
            continue
        vf = jax.jit(jax.vmap(lambda uh: fun(uh)))
        for i0 in range(0, len(cases), 512):
            chunk = cases[i0:i0 + 512]
            U = np.stack([nonlin.state_to_half(ex, jnp, D, N, inp)[1] for inp, _ in chunk])
            got = np.asarray(vf(jnp.asarray(U)))
            for j, (inp, pred) in enumerate(chunk):
                want = np.stack([nonlin.dense_from_twosided(D, N, f) for f in pred])
                ND = float(N) ** D
                scale = ND * (1 + max((abs(c) for f in pred for c in f.values()), default=0.0))
                err = maxabs(got[j] - want)
                run.case(None)
                tol = 1e-9 if term not in ("cahn_hilliard", "gray_scott") else 1e-7
                if got[j].shape != want.shape or not err <= tol * scale:
                    modes = sorted({k for f in inp for k in f})
                    run.violation({"kind": "operator", "term": term, "D": D, "N": N, "fraction": "1/2" if half else "default"},
                                  {"input_modes": [list(k) for k in modes], "channels_excited": [c for c, f in enumerate(inp) if f],
                                   "err_rel": err / scale, "worst_index": [int(x) for x in np.unravel_index(np.argmax(np.abs(got[j] - want)), want.shape)]})
                if nsamp < 4 and len(pred[0]) > 0:
                    run.sample({"term": term, "D": D, "N": N, "input": [{str(list(k)): [c.real, c.imag] for k, c in f.items()} for f in inp],
                                "predicted": [{str(list(k)): [c.real, c.imag] for k, c in f.items()} for f in pred], "err_rel": err / scale})
                    nsamp += 1
        run.nontrivial.add((term, D, N))
        run.traces += len(cases)


def check_random_dense(run, ex, jnp, rng):
    """Random dense real states (content up to Nyquist): bilinearity/polarisation consistency N(a+b) - N(a) - N(b) symmetric in (a, b),
    and the retained-mode count of every constructed term against the specification's cutoff."""
    for D, N in ((1, 16), (1, 15), (2, 8), (2, 9), (3, 6)):
        for term in ("conv_mc_cons", "conv_mc_non", "conv_sc_cons", "gradnorm_nofix", "vort2d", "rot3d"):
            if (term == "vort2d" and D != 2) or (term == "rot3d" and D != 3):
                continue
            fun = nonlin.build(ex, jnp, term, D, N)
            C = D if "_mc_" in term else 3 if term == "rot3d" else 1
            a = ex.fft(jnp.asarray(rng.standard_normal((C,) + (N,) * D)))
            b = ex.fft(jnp.asarray(rng.standard_normal((C,) + (N,) * D)))
            run.case(("dense", term, D, N))
            lhs = np.asarray(fun(a + b) - fun(a) - fun(b))
            rhs = np.asarray((fun(a + 2 * b) - fun(a) - fun(2 * b)) / 2)
            if maxabs(lhs - rhs) > 1e-8 * (1 + maxabs(lhs)):
                run.violation({"kind": "bilinearity", "term": term, "D": D, "N": N}, {"err": maxabs(lhs - rhs)})


def check_scaling(run, ex, jnp, rng):
    """Dimensional analysis of the documented operators: on the box of extent s L every derivative carries 1/s, so the convection terms scale
    like 1/s, the gradient norm like 1/s^2, the rotational 3D term like 1/s and the 2D vorticity convection (velocity = curl of the inverse
    Laplacian) not at all - for domain extents over ten decades, on dense states."""
    nf = ex.nonlin_fun
    for D, N in ((1, 16), (2, 8), (2, 9), (3, 6)):
        builders = [("conv_mc", 1, D, lambda dop: nf.ConvectionNonlinearFun(D, N, derivative_operator=dop, dealiasing_fraction=2 / 3, scale=1.3)),
                    ("conv_sc_cons", 1, 1, lambda dop: nf.ConvectionNonlinearFun(D, N, derivative_operator=dop, dealiasing_fraction=2 / 3, scale=0.7, single_channel=True, conservative=True)),
                    ("gradnorm", 2, 1, lambda dop: nf.GradientNormNonlinearFun(D, N, derivative_operator=dop, dealiasing_fraction=2 / 3, scale=1.1))]
        if D == 2:
            builders.append(("vort2d", 0, 1, lambda dop: nf.VorticityConvection2d(D, N, convection_scale=0.9, derivative_operator=dop, dealiasing_fraction=2 / 3)))
        if D == 3:
            builders.append(("rot3d", 1, 3, lambda dop: nf.ProjectedConvection3d(D, N, derivative_operator=dop, dealiasing_fraction=2 / 3)))
        for term, p, C, mk in builders:
            uh = ex.fft(jnp.asarray(rng.standard_normal((C,) + (N,) * D)))
            L0 = 2.0
            ref = np.asarray(mk(ex.spectral.build_derivative_operator(D, L0, N))(uh))
            for s_ in (1e5, 3e3, 1e-4):
                got = np.asarray(mk(ex.spectral.build_derivative_operator(D, s_ * L0, N))(uh)) * s_ ** p
                run.case(("scaling", term, D, N, s_))
                if not np.all(np.isfinite(got)) or maxabs(got - ref) > 1e-9 * (1 + maxabs(ref)):
                    run.violation({"kind": "scaling", "term": term, "D": D, "N": N}, {"extent_factor": s_, "err_rel": maxabs(got - ref) / (1 + maxabs(ref))})


def run(tier: str, seed: int) -> int:
    run_ = Run(PID, tier, seed)
    jax = setup_jax(True)
    import jax.numpy as jnp
    import exponax as ex
    rng = np.random.default_rng(seed)
    for label, dn, terms in (QUICK if tier == "quick" else THOROUGH):
        half = label.endswith("h")
        res = nonlin.run_model(run_, dn, terms, 0, label, half=half)
        replay_states(run_, res, ex, jnp, jax, half=half)
        tlc.cleanup(res)
    check_random_dense(run_, ex, jnp, rng)
    check_scaling(run_, ex, jnp, rng)
    # hook events recorded by the library itself (this process and the repository's own tests run with EXPONAX_VERIF=1), validated by
    # TLC against spec/Trace_Hooks.tla: Dealias
    from .. import hooktrace as _ht
    _ht.check(run_, PID, ['Dealias'], ['tests/test_nonlinear_funs.py', 'tests/test_builtin_solvers.py'], {'ev': 'Dealias', 'D': 2, 'N': 12, 'fraction': [2, 3], 'kept': 99})
    # the arithmetic lemmas behind the dealiasing design for EVERY N >= 3 (Apalache, unbounded integers); plus a deliberately false lemma
    # that must be refuted (the proof obligation is not vacuous)
    proved = {}
    for inv in ("AliasFreeAllN", "NyquistFreeAllN", "MonotoneAllN", "TightAllN"):
        ok, wall, tail = tlc.run_apalache("Lemmas_apa", inv)
        proved[inv] = ok
        if not ok:
            run_.violation({"kind": "spec", "invariant": inv, "what": "all-N lemma refuted"}, {"apalache": tail})
    ok, wall, tail = tlc.run_apalache("Lemmas_apa", "FalseLemma")
    if ok:
        raise RuntimeError("Apalache accepted a false lemma: the all-N obligations are vacuous")
    run_.extra["all_N_lemmas_apalache"] = proved
    tlc.cleanup_mine()
    run_.rule = ("one case per terminal TLC state: (term, D, N, sum of <= degree real basis functions incl. channel assignment, cos/sin, modes inside "
                 "the band, one shell outside and Nyquist); distinct_nontrivial counts distinct (term, D, N) tables plus dense-state cases; by "
                 "multilinearity the basis sums fix the operator for every state of the grid")
    run_.exhaustive = True
    run_.assumptions = ["numpy evaluation of cos/sin for the input fields", "Cahn-Hilliard / Gray-Scott terms measured through (S1 - S0)/(dt phi1) of the public steppers",
                        "tolerance 1e-9 * N^D * (1+|pred|)"]
    # the composed machine (spec/Session.tla): multi-step API sessions generated by TLC -simulate, replayed call by call; this check
    # reports the mismatches of the operations it owns (apply)
    if tier != "quick":
        from .. import session
        import jax.numpy as _jnp
        import exponax as _ex
        session.run_for(run_, tier, seed, _ex, _jnp, ['apply'], PID)
        from .. import sessiontrace   # the other direction: driver-chosen sessions executed by the library, every returned state validated by TLC (Trace_Session.tla)
        sessiontrace.run_for(run_, tier, seed, _ex, _jnp, ['apply'], PID)
    return run_.finish()


def replay(path):
    return run("quick", 0)
