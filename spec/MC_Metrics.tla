---------------------------- MODULE MC_Metrics ----------------------------
(* The error metrics of exponax.metrics evaluated exactly on pairs of sparse two-sided spectra with rational amplitudes.
   Documented quantity (per channel, inner exponent 2):
        (L/N)^D Sum_x |u_x|^2  ~  Int_Omega |u|^2 dx  =  L^D Sum_k |c_k|^2                     (Parseval, two-sided coefficients)
   Fourier variants apply the band  low <= max_d |k_d| <= high  (both inclusive) and optionally d/dx_j (symbol i w k_j),
   aggregate every derivative direction separately, sum them, then sum channels.
   The machine follows the pipeline of the code:   pair --Diff--> diff --Band--> banded --Aggregate--> done.
   Exact outputs ("atoms" the harness combines with L, w = 2 pi / L and the outer exponent):
        E2[c][j]   = Sum_k band(k) wj(k)^2 |c_k|^2              j = 0 value term (wj = 1), j = d derivative (wj = k_d)
        S1[c][j]   = formal sum  Sum_q  weight_q * SQRT[q]      q = |c_k|^2, weight = Sum |wj(k)|  (inner exponent 1, Fourier)
   for the difference, the reference and the prediction. *)
EXTENDS Nonlin

CONSTANTS DNSet,     \* encoded (C, D, N) triples C*10000 + D*1000 + N
          Ext,       \* mode extent of the basis functions (max |k_d|) per dimension, encoded e1*100 + e2*10 + e3, capped at the Nyquist-free range
          Bands,     \* set of encoded bands low*1000 + high, 900 = None
          Third      \* TRUE: the reference carries a third free basis function; FALSE: it reuses the first one (quick)
VARIABLES D, N, C, pred, ref, band, base, pc, cur, res
vars == <<D, N, C, pred, ref, band, base, pc, cur, res>>

\* ---------------------------------------------------------------- the registry of public metrics (read by the harness)
\* inner exponent, outer exponent ("id" | "sqrt"), mode, fourier (takes low/high/derivative_order), deriv ("no" | "yes" | "h1")
M(i, o, m, f, d) == [inner |-> i, outer |-> o, form |-> m, fourier |-> f, deriv |-> d]
MetricTable ==
    [ MAE |-> M(1, "id", "abs", FALSE, "no"), nMAE |-> M(1, "id", "norm", FALSE, "no"), sMAE |-> M(1, "id", "sym", FALSE, "no"),
      MSE |-> M(2, "id", "abs", FALSE, "no"), nMSE |-> M(2, "id", "norm", FALSE, "no"), sMSE |-> M(2, "id", "sym", FALSE, "no"),
      RMSE |-> M(2, "sqrt", "abs", FALSE, "no"), nRMSE |-> M(2, "sqrt", "norm", FALSE, "no"), sRMSE |-> M(2, "sqrt", "sym", FALSE, "no"),
      fourier_MAE |-> M(1, "id", "abs", TRUE, "no"), fourier_nMAE |-> M(1, "id", "norm", TRUE, "no"),
      fourier_MSE |-> M(2, "id", "abs", TRUE, "no"), fourier_nMSE |-> M(2, "id", "norm", TRUE, "no"),
      fourier_RMSE |-> M(2, "sqrt", "abs", TRUE, "no"), fourier_nRMSE |-> M(2, "sqrt", "norm", TRUE, "no"),
      H1_MAE |-> M(1, "id", "abs", TRUE, "h1"), H1_nMAE |-> M(1, "id", "norm", TRUE, "h1"),
      H1_MSE |-> M(2, "id", "abs", TRUE, "h1"), H1_nMSE |-> M(2, "id", "norm", TRUE, "h1"),
      H1_RMSE |-> M(2, "sqrt", "abs", TRUE, "h1"), H1_nRMSE |-> M(2, "sqrt", "norm", TRUE, "h1") ]
ASSUME PrintT(<<"metric_table", MetricTable>>)

\* ---------------------------------------------------------------- inputs
Positive(p) == LET nz == {d \in DOMAIN p : p[d] # 0} IN nz = {} \/ p[CHOOSE d \in nz : \A e \in nz : d <= e] > 0
Box(d, m) == LET R == (-m)..m IN IF d = 1 THEN {<<a>> : a \in R} ELSE IF d = 2 THEN R \X R ELSE R \X R \X R
HalfBox(d, m) == { p \in Box(d, m) : Positive(p) }
ExtOf(d) == IF d = 1 THEN Ext \div 100 ELSE IF d = 2 THEN (Ext \div 10) % 10 ELSE Ext % 10
MExt(d, n) == Min2(ExtOf(d), (n - 1) \div 2)
Basis(d, n, c) == { <<p, tr, ch>> \in HalfBox(d, MExt(d, n)) \X {"cos", "sin"} \X (1..c) : ~(tr = "sin" /\ VSq(p) = 0) }
One(d, c, b, a) == [ch \in 1..c |-> IF ch = b[3] THEN FScale(CReal(a), FPrune(BasisTS(b[1], b[2]))) ELSE FZero]
StAdd(U, V) == [ch \in 1..Len(U) |-> FAdd(U[ch], V[ch])]
StSub(U, V) == [ch \in 1..Len(U) |-> FSub(U[ch], V[ch])]
StScale(q, U) == [ch \in 1..Len(U) |-> FScale(CReal(q), U[ch])]
\* per-channel constant offsets, large enough to make prediction - reference sign-definite in every channel
BaseP(d, c) == [ch \in 1..c |-> FConst(d, CReal(Q(8 + ch, 1)))]
BaseR(d, c) == [ch \in 1..c |-> FConst(d, CReal(Q(2 * ch + 1, 2)))]
A1 == <<1, 1>>
A2 == <<-1, 2>>
A3 == <<3, 2>>
A4 == <<2, 3>>

Init == /\ \E e \in DNSet : C = e \div 10000 /\ D = (e \div 1000) % 10 /\ N = e % 1000
        /\ base \in BOOLEAN
        /\ \E e \in Bands : band = <<e \div 1000, e % 1000>>
        /\ \E b1 \in Basis(D, N, C), b2 \in Basis(D, N, C), b3 \in Basis(D, N, C) :
              /\ Third \/ b3 = b1
              /\ pred = StAdd(StAdd(One(D, C, b1, A1), One(D, C, b2, A2)), IF base THEN BaseP(D, C) ELSE [ch \in 1..C |-> FZero])
              /\ ref  = StAdd(StAdd(One(D, C, b3, A3), One(D, C, b2, A4)), IF base THEN BaseR(D, C) ELSE [ch \in 1..C |-> FZero])
        /\ pc = "pair" /\ cur = << >> /\ res = << >>

\* ---------------------------------------------------------------- the pipeline
NoB == 900
InBand(k, bd) == (bd[1] = NoB \/ VMaxAbs(k) >= bd[1]) /\ (bd[2] = NoB \/ VMaxAbs(k) <= bd[2])
FBand(f, bd) == [k \in {x \in DOMAIN f : InBand(x, bd)} |-> f[k]]
Wj(k, j) == IF j = 0 THEN 1 ELSE Abs(k[j])
E2(f, j) == QSum(DOMAIN f, LAMBDA k : QMul(QInt(Wj(k, j) * Wj(k, j)), CAbs2(f[k])))
S1(f, j) == LET Ks == {k \in DOMAIN f : Wj(k, j) # 0}
                Qs == { CAbs2(f[k]) : k \in Ks }
            IN  [q \in Qs |-> FoldSet(LAMBDA k, acc : Wj(k, j) + acc, 0, {k \in Ks : CAbs2(f[k]) = q})]
Atoms(U) == [ch \in 1..Len(U) |-> [e2 |-> [j \in 0..D |-> E2(U[ch], j)], s1 |-> [j \in 0..D |-> S1(U[ch], j)]]]

Diff == pc = "pair" /\ cur' = [diff |-> StSub(pred, ref), ref |-> ref, pred |-> pred] /\ pc' = "diff"
        /\ UNCHANGED <<D, N, C, pred, ref, band, base, res>>
Band == pc = "diff" /\ cur' = [x \in DOMAIN cur |-> [ch \in 1..C |-> FBand(cur[x][ch], band)]] /\ pc' = "banded"
        /\ UNCHANGED <<D, N, C, pred, ref, band, base, res>>
\* sign-definite difference: the DC coefficient exceeds the sum of the moduli^2-bounded amplitudes; then Int |u| = L^D |c_0| exactly
SumAbsBound(f) == QSum({k \in DOMAIN f : VSq(k) # 0}, LAMBDA k : QAdd(IF QSign(f[k].re) < 0 THEN QNeg(f[k].re) ELSE f[k].re,
                                                                        IF QSign(f[k].im) < 0 THEN QNeg(f[k].im) ELSE f[k].im))
SignDef(f) == VZero(D) \in DOMAIN f /\ QLt(SumAbsBound(f), IF QSign(f[VZero(D)].re) < 0 THEN QNeg(f[VZero(D)].re) ELSE f[VZero(D)].re)
DC(f) == IF VZero(D) \in DOMAIN f THEN (IF QSign(f[VZero(D)].re) < 0 THEN QNeg(f[VZero(D)].re) ELSE f[VZero(D)].re) ELSE QZero
Corr(u, v) == [uv |-> FInner(u, v).re, uu |-> FInner(u, u).re, vv |-> FInner(v, v).re]
Aggregate ==
    /\ pc = "banded"
    /\ res' = [ diff |-> Atoms(cur.diff), ref |-> Atoms(cur.ref), pred |-> Atoms(cur.pred),
                \* spatial L1: defined exactly only on sign-definite fields (full band)
                l1 |-> [ch \in 1..C |-> LET dd == FSub(pred[ch], ref[ch]) IN
                           [ok |-> SignDef(dd) /\ SignDef(ref[ch]) /\ SignDef(pred[ch]),
                            diff |-> DC(dd), ref |-> DC(ref[ch]), pred |-> DC(pred[ch])]],
                corr |-> [ch \in 1..C |-> Corr(pred[ch], ref[ch])] ]
    /\ pc' = "done"
    /\ UNCHANGED <<D, N, C, pred, ref, band, base, cur>>
Next == Diff \/ Band \/ Aggregate
Spec == Init /\ [][Next]_vars /\ WF_vars(Next)

\* ---------------------------------------------------------------- properties (exact; the L^D and w^2 factors are common and symbolic)
Done == pc = "done"
Chs == 1..C
dF(ch) == FSub(pred[ch], ref[ch])
\* Parseval through the layout: the Fourier aggregation over the stored half-spectrum of grid n with the reconstruction weights
\* equals the two-sided sum, for every grid that resolves the field (resolution independence)
H2(n, f, bd, j) ==
    LET h == HalfOf(D, n, f)
        ND == IPow(n, D)
        S == { s \in DOMAIN h : InBand(VWrap(n, K(D, n, s)), bd) }
        kj(s) == IF j = 0 THEN 1 ELSE K(D, n, s)[j]
    IN  QMul(<<1, ND>>, QMul(<<1, ND>>, QSum(S, LAMBDA s : QMul(QInt(DenRecon(D, n, s) * kj(s) * kj(s)), CAbs2(h[s])))))
ParsevalOK == Done => \A ch \in Chs, j \in 0..D :
                 /\ H2(N, dF(ch), band, j) = res.diff[ch].e2[j]
                 /\ H2(N + 1, dF(ch), band, j) = res.diff[ch].e2[j]
                 /\ H2(2 * N, ref[ch], band, j) = res.ref[ch].e2[j]
\* the spatial sum equals the Fourier sum (mean square through the rfft weights) on the full band
SpatialOK == (Done /\ band = <<NoB, NoB>>) => \A ch \in Chs : MeanSquare(D, N, HalfOf(D, N, dF(ch))) = res.diff[ch].e2[0]
\* every mode lies in exactly one shell: the single-shell bands add up to the full band
ShellSum(f, j) == QSum(0..(N \div 2), LAMBDA b : E2(FBand(f, <<b, b>>), j))
BandAddOK == Done => \A ch \in Chs, j \in 0..D :
                 /\ ShellSum(dF(ch), j) = E2(dF(ch), j)
                 /\ (band[1] # NoB /\ band[2] # NoB) =>
                        QAdd(QAdd(E2(FBand(dF(ch), <<NoB, band[1] - 1>>), j), res.diff[ch].e2[j]), E2(FBand(dF(ch), <<band[2] + 1, NoB>>), j))
                            = E2(dF(ch), j)
\* zero for identical inputs, positive otherwise
ZeroIffOK == (Done /\ band = <<NoB, NoB>>) => \A ch \in Chs : (QIsZero(res.diff[ch].e2[0]) <=> pred[ch] = ref[ch]) /\ QSign(res.diff[ch].e2[0]) >= 0
\* symmetric in the two arguments; homogeneous of degree 2 (1 for the formal L1 sums: keys scale with s^2, weights unchanged)
HomogOK == Done => \A ch \in Chs, j \in 0..D :
              LET f == FBand(dF(ch), band)
                  g == FBand(FSub(ref[ch], pred[ch]), band)
                  s == <<-5, 3>>
                  fs == FBand(FSub(FScale(CReal(s), pred[ch]), FScale(CReal(s), ref[ch])), band)
              IN  /\ E2(g, j) = E2(f, j) /\ S1(g, j) = S1(f, j)
                  /\ E2(fs, j) = QMul(QMul(s, s), E2(f, j))
                  /\ DOMAIN S1(fs, j) = { QMul(QMul(s, s), q) : q \in DOMAIN S1(f, j) }
                  /\ \A q \in DOMAIN S1(f, j) : S1(fs, j)[QMul(QMul(s, s), q)] = S1(f, j)[q]
\* symmetric MSE per channel is at most 4 (||u - v||^2 <= 2 ||u||^2 + 2 ||v||^2), and the normalised variants are scale free by construction
SymBoundOK == Done => \A ch \in Chs :
              LET den == QAdd(res.pred[ch].e2[0], res.ref[ch].e2[0])
              IN  QIsZero(den) \/ band # <<NoB, NoB>> \/ QLe(QMul(QInt(2), res.diff[ch].e2[0]), QMul(QInt(4), den))
\* Cauchy-Schwarz and the proportional case for the correlation
CorrOK == Done => \A ch \in Chs :
              LET c == res.corr[ch] IN
              /\ QLe(QMul(c.uv, c.uv), QMul(c.uu, c.vv))
              /\ (~QIsZero(c.vv)) => ((pred[ch] = FScale(CReal(QDiv(c.uv, c.vv)), ref[ch])) <=> (QMul(c.uv, c.uv) = QMul(c.uu, c.vv)))
\* H1: the derivative atoms are the value atoms of the spectral gradient (per direction)
GradOK == Done => \A ch \in Chs, j \in 1..D :
              res.diff[ch].e2[j] = E2(FBand(FD(QOne, j, dF(ch)), band), 0)
\* sign-definite differences: L1 equals |mean|, consistent with Cauchy-Schwarz  (Int|u|)^2 <= L^D Int u^2
L1OK == (Done /\ band = <<NoB, NoB>>) => \A ch \in Chs : res.l1[ch].ok => QLe(QMul(res.l1[ch].diff, res.l1[ch].diff), res.diff[ch].e2[0])
=============================================================================
