---------------------------- MODULE MC_Nonlin ----------------------------
(* Pseudo-spectral evaluation of a nonlinear term as a machine:
       input  --DealiasIn-->  truncated  --Apply-->  applied  --DealiasOut-->  output
   on exact sparse spectra.  Initial states enumerate every term x (D, N) x every sum of <= Degree real basis functions
   (wavenumbers inside the retained band, just outside it and at Nyquist; cos and sin; every channel assignment):
   by multilinearity (polarisation) these determine the operator for every state of the grid. *)
EXTENDS Nonlin

CONSTANTS DNSet, TermSet,
          HalfFrac,   \* TRUE: every term is built with dealiasing fraction 1/2 (quadratic terms stay alias-free, with a narrower band)
          Extra       \* 0: sums of Degree basis functions (fixes the operator);  1: one more (fixes the trilinear work / conservation forms), band only
VARIABLES term, D, N, inp, cur, pc
vars == <<term, D, N, inp, cur, pc>>

\* ---------------------------------------------------------------- registry of terms
Channels(t, d) == IF t \in {"conv_mc_cons", "conv_mc_non", "leray"} THEN d
                  ELSE IF t = "rot3d" THEN 3 ELSE IF t = "gray_scott" THEN 2 ELSE 1
Degree(t) == IF t \in {"poly3", "cahn_hilliard", "gray_scott"} THEN 3 ELSE IF t = "leray" THEN 1 ELSE 2
Dims(t) == IF t = "vort2d" THEN {2} ELSE IF t = "rot3d" THEN {3} ELSE IF t = "leray" THEN {2, 3} ELSE {1, 2, 3}
\* dealiasing fraction as <<num, den>>; none for the Leray projection
Frac(t) == IF Degree(t) = 3 \/ HalfFrac THEN <<1, 2>> ELSE <<2, 3>>
Cut(t, n) == IF t = "leray" THEN n ELSE DealiasCut(n, Frac(t)[1], Frac(t)[2])
\* rational parameter instances
B    == <<3, 2>>
Pol2 == << <<1, 3>>, <<-1, 2>>, <<2, 1>> >>
Pol3 == << <<0, 1>>, <<1, 2>>, <<-1, 3>>, <<3, 4>> >>
Gen  == << <<1, 2>>, <<-3, 2>>, <<2, 3>> >>
CHs  == <<3, 4>>
GSf  == <<1, 5>>
GSk  == <<3, 10>>
Omega(n) == IF n % 3 = 0 THEN <<2, 1>> ELSE IF n % 3 = 1 THEN <<1, 2>> ELSE <<1, 1>>

Op(t, d, n, U) ==
    LET w == Omega(n) IN
    CASE t = "conv_mc_cons"   -> ConvMCCons(d, w, B, U)
      [] t = "conv_mc_non"    -> ConvMCNon(d, w, B, U)
      [] t = "conv_sc_cons"   -> ConvSCCons(d, w, B, U)
      [] t = "conv_sc_non"    -> ConvSCNon(d, w, B, U)
      [] t = "gradnorm_fix"   -> GradNorm(d, w, B, TRUE, U)
      [] t = "gradnorm_nofix" -> GradNorm(d, w, B, FALSE, U)
      [] t = "poly2"          -> Poly(d, Pol2, U)
      [] t = "poly3"          -> Poly(d, Pol3, U)
      [] t = "general_fix"    -> General(d, w, Gen, TRUE, U)
      [] t = "general_nofix"  -> General(d, w, Gen, FALSE, U)
      [] t = "vort2d"         -> Vort2d(w, B, U)
      [] t = "rot3d"          -> Leray(3, w, Rot3dRaw(w, U))
      [] t = "leray"          -> Leray(d, w, U)
      [] t = "cahn_hilliard"  -> CahnHilliard(d, w, CHs, U)
      [] t = "gray_scott"     -> GrayScott(d, GSf, GSk, U)

\* ---------------------------------------------------------------- inputs
\* canonical half of the mode box |p_d| <= m : first non-zero component positive, or p = 0
Positive(p) == LET nz == {d \in DOMAIN p : p[d] # 0} IN nz = {} \/ p[CHOOSE d \in nz : \A e \in nz : d <= e] > 0
Box(d, m) == LET R == (-m)..m IN IF d = 1 THEN {<<a>> : a \in R} ELSE IF d = 2 THEN R \X R ELSE R \X R \X R
HalfBox(d, m) == { p \in Box(d, m) : Positive(p) }
\* mode extent of the inputs: the retained band and one shell beyond (3D: the band only), plus the Nyquist mode in 1D
Extent(t, d, n) == IF t = "leray" THEN (n - 1) \div 2                 \* Nyquist-free fields for the projection
                   ELSE IF d = 3 \/ Extra = 1 THEN Max2(Cut(t, n), 1) ELSE Min2(Cut(t, n) + 1, n \div 2)
Modes(t, d, n) == HalfBox(d, Min2(Extent(t, d, n), n \div 2)) \cup (IF d = 1 /\ Extra = 0 /\ t # "leray" THEN {<<n \div 2>>} ELSE {})
Basis(t, d, n) == { <<p, tr, c>> \in Modes(t, d, n) \X {"cos", "sin"} \X (1..Channels(t, d)) : ~(tr = "sin" /\ VSq(p) = 0) }
\* the field of one basis element: channel c carries cos / sin of p, the other channels are empty
BasisState(t, d, b) == [c \in 1..Channels(t, d) |-> IF c = b[3] THEN FPrune(BasisTS(b[1], b[2])) ELSE FZero]
StAdd(U, V) == [c \in 1..Len(U) |-> FAdd(U[c], V[c])]
StZero(t, d) == [c \in 1..Channels(t, d) |-> FZero]
SumState(t, d, S) == FoldSet(LAMBDA b, acc : StAdd(BasisState(t, d, b), acc), StZero(t, d), S)
Combos(t, d, n) == LET Bs == Basis(t, d, n) IN
    IF Degree(t) + Extra = 1 THEN { {a} : a \in Bs }
    ELSE IF Degree(t) + Extra = 2 THEN { {a, b} : a \in Bs, b \in Bs }
    ELSE IF Degree(t) + Extra = 3 THEN { {a, b, c} : a \in Bs, b \in Bs, c \in Bs }
    ELSE { {a, b, c, e} : a \in Bs, b \in Bs, c \in Bs, e \in Bs }

Init == /\ term \in TermSet
        /\ \E c \in DNSet : D = c \div 1000 /\ N = c % 1000
        /\ D \in Dims(term)
        /\ \E S \in Combos(term, D, N) : inp = SumState(term, D, S)
        /\ cur = inp /\ pc = "input"

DealiasIn  == pc = "input"     /\ cur' = Trunc(cur, Cut(term, N)) /\ pc' = "truncated" /\ UNCHANGED <<term, D, N, inp>>
Apply      == pc = "truncated" /\ cur' = Op(term, D, N, cur)      /\ pc' = "applied"   /\ UNCHANGED <<term, D, N, inp>>
DealiasOut == pc = "applied"   /\ cur' = Trunc(cur, Cut(term, N)) /\ pc' = "output"    /\ UNCHANGED <<term, D, N, inp>>
Next == DealiasIn \/ Apply \/ DealiasOut
Spec == Init /\ [][Next]_vars /\ WF_vars(Next)

\* ---------------------------------------------------------------- properties
w == Omega(N)
TruncIn == Trunc(inp, Cut(term, N))
AllK(U) == UNION { DOMAIN U[c] : c \in 1..Len(U) }

\* C03: the design is alias-free - every wavenumber produced from retained modes wraps onto itself or is discarded
AliasFree == (pc = "applied" /\ term # "leray") =>
    \A k \in AllK(cur) : (VWrap(N, k) = k) \/ ~KeptK(VWrap(N, k), N, Frac(term)[1], Frac(term)[2])
\* C03: the result is a real field, confined to the retained band, never touching the Nyquist mode
BandOK == (pc = "output") => /\ \A c \in 1..Len(cur) : FReal(cur[c])
                             /\ \A k \in AllK(cur) : VMaxAbs(k) <= Cut(term, N) /\ (term # "leray" => 2 * VMaxAbs(k) < N)
\* C08: translation equivariance - the output of a product of modes lives on sums of input wavenumbers (0 for the constant terms)
RECURSIVE SumsOf(_, _)
SumsOf(S, m) == IF m = 1 THEN S ELSE { VAdd(a, b) : a \in S, b \in SumsOf(S, m - 1) }
ShiftOK == (pc \in {"applied", "output"}) =>
    LET S == AllK(TruncIn) \cup {VZero(D)} IN AllK(cur) \subseteq SumsOf(S, Degree(term))
\* C09: conservative forms do not touch the mean (zero mode of the result vanishes)
MeanFree(t, d) == t \in {"conv_mc_cons", "conv_sc_cons", "conv_sc_non", "gradnorm_fix", "vort2d", "cahn_hilliard"} \/ (t = "conv_mc_non" /\ d = 1)
MeanOK == (pc \in {"applied", "output"} /\ MeanFree(term, D)) => \A c \in 1..Len(cur) : VZero(D) \notin DOMAIN cur[c]
\* C09: the convective terms do no work on band-limited states
EnergyNeutral(t, d) == t \in {"conv_sc_cons", "conv_sc_non"} \/ (t \in {"conv_mc_cons", "conv_mc_non"} /\ d = 1)
Work(U, V) == CSum(1..Len(U), LAMBDA c : FInner(U[c], V[c]))
EnergyOK == (pc \in {"applied", "output"} /\ EnergyNeutral(term, D)) => CIsZero(Work(TruncIn, cur))
\* C09: 2D vorticity convection conserves energy (<psi, N> = 0) and enstrophy (<omega, N> = 0)
VortOK == (pc \in {"applied", "output"} /\ term = "vort2d") =>
    /\ CIsZero(FInner(TruncIn[1], cur[1]))
    /\ CIsZero(FInner(FInvLap(w, TruncIn[1]), cur[1]))
\* C10 / C09: the 3D rotational term is divergence-free for every input; on divergence-free input it does no work and keeps the mean
Div(U) == FSumD(D, LAMBDA d : FD(w, d, U[d]))
DivFreeIn == DOMAIN Div(TruncIn) = {}
Rot3dOK == (pc \in {"applied", "output"} /\ term = "rot3d") =>
    /\ DOMAIN Div(cur) = {}
    /\ DivFreeIn => (CIsZero(Work(TruncIn, cur)) /\ \A c \in 1..3 : VZero(3) \notin DOMAIN cur[c])
\* C10: Leray projection - divergence-free, idempotent, identity on divergence-free fields and on the mean
LerayOK == (pc \in {"applied", "output"} /\ term = "leray") =>
    /\ DOMAIN Div(cur) = {}
    /\ Leray(D, w, cur) = cur
    /\ (DOMAIN Div(TruncIn) = {}) => cur = TruncIn
    /\ \A c \in 1..D : FGet(cur[c], VZero(D)) = FGet(TruncIn[c], VZero(D))
\* C08: axis permutations.  (sigma.k)[d] = k[sigma[d]] ; fields move with their wavenumbers ; the channels of vector-valued
\* states (one velocity component per axis) are permuted with the axes.  Isotropic terms commute with every permutation.
Perms(d) == IF d = 1 THEN {<<1>>} ELSE IF d = 2 THEN {<<1, 2>>, <<2, 1>>}
            ELSE {<<1, 2, 3>>, <<1, 3, 2>>, <<2, 1, 3>>, <<2, 3, 1>>, <<3, 1, 2>>, <<3, 2, 1>>}
PermK(sg, k) == Tup(Len(k), LAMBDA d : k[sg[d]])
PermField(sg, f) == LET Ks == { PermK(sg, k) : k \in DOMAIN f }
                    IN  [kk \in Ks |-> f[CHOOSE k \in DOMAIN f : PermK(sg, k) = kk]]
VectorValued(t) == t \in {"conv_mc_cons", "conv_mc_non", "leray", "rot3d"}
PermState(t, sg, U) == [c \in 1..Len(U) |-> PermField(sg, U[IF VectorValued(t) THEN sg[c] ELSE c])]
Isotropic(t) == t # "vort2d"          \* the vorticity is a pseudo-scalar: an axis swap flips its sign, see VortSwapOK
PermOK == (pc = "applied" /\ Isotropic(term)) =>
    \A sg \in Perms(D) : Op(term, D, N, PermState(term, sg, TruncIn)) = PermState(term, sg, cur)
VortSwapOK == (pc = "applied" /\ term = "vort2d") =>
    Op(term, D, N, PermState(term, <<2, 1>>, TruncIn)) = SeqMap(PermState(term, <<2, 1>>, cur), FNeg)
\* C08: a state that varies along one axis a only (and, for vector-valued states, has only its a-component excited) is mapped
\* like the 1D term maps the corresponding 1D state; the other components stay zero
OnAxis(a, U) == \A k \in AllK(U) : \A d \in 1..D : d # a => k[d] = 0
Project(a, f) == [kk \in { <<k[a]>> : k \in DOMAIN f } |-> f[CHOOSE k \in DOMAIN f : k[a] = kk[1]]]
Lift(a, f) == [kk \in { Tup(D, LAMBDA d : IF d = a THEN k[1] ELSE 0) : k \in DOMAIN f } |-> f[<<kk[a]>>]]
EmbedOK == (pc = "applied" /\ D >= 2 /\ term \notin {"vort2d", "rot3d", "leray"}) =>
    \A a \in 1..D :
        (OnAxis(a, TruncIn) /\ (VectorValued(term) => \A c \in 1..D : c # a => DOMAIN TruncIn[c] = {})) =>
            LET ch == IF VectorValued(term) THEN {a} ELSE 1..Len(cur)
                one == Op(term, 1, N, [c \in 1..(IF VectorValued(term) THEN 1 ELSE Len(cur)) |->
                                         Project(a, TruncIn[IF VectorValued(term) THEN a ELSE c])])
            IN  /\ \A c \in ch : cur[c] = Lift(a, one[IF VectorValued(term) THEN 1 ELSE c])
                /\ \A c \in (1..Len(cur)) \ ch : DOMAIN cur[c] = {}
Termination == <>(pc = "output")
=============================================================================
