---------------------------- MODULE Nonlin ----------------------------
(* The documented nonlinear differential operators of exponax acting exactly on sparse two-sided spectra.
   A field is a function  k -> C  on a finite set of integer wavenumber vectors (true wavenumbers in Z^D, no wrap-around):
        u(x) = Sum_k u[k] exp(i w k.x),      w = 2 pi / L  (rational instances in TLC).
   A state is a sequence of fields (channels).  Products are true convolutions in Z^D, so no aliasing can occur here;
   the library must reproduce  Trunc( Op( Trunc(u) ) )  on the retained band and zero outside it. *)
EXTENDS Layout

\* ---------------------------------------------------------------- fields
FPrune(f) == [k \in {x \in DOMAIN f : ~CIsZero(f[x])} |-> f[k]]
FZero == << >>
FGet(f, k) == IF k \in DOMAIN f THEN f[k] ELSE CZero
FAdd(a, b) == FPrune([k \in (DOMAIN a) \cup (DOMAIN b) |-> CAdd(FGet(a, k), FGet(b, k))])
FScale(c, a) == FPrune([k \in DOMAIN a |-> CMul(c, a[k])])
FNeg(a) == FScale(CInt(-1), a)
FSub(a, b) == FAdd(a, FNeg(b))
FDiag(a, sym(_)) == FPrune([k \in DOMAIN a |-> CMul(sym(k), a[k])])
FMul(a, b) ==
    LET P == (DOMAIN a) \X (DOMAIN b)
        Ks == { VAdd(p[1], p[2]) : p \in P }
    IN  FPrune([k \in Ks |-> CSum({p \in P : VAdd(p[1], p[2]) = k}, LAMBDA p : CMul(a[p[1]], b[p[2]]))])
FSumSet(S, f(_)) == FoldSet(LAMBDA x, acc : FAdd(f(x), acc), FZero, S)
FTrunc(a, cut) == [k \in {x \in DOMAIN a : VMaxAbs(x) <= cut} |-> a[k]]
FDropDC(a) == [k \in {x \in DOMAIN a : VSq(x) # 0} |-> a[k]]
FConst(D, c) == FPrune((VZero(D) :> c))
FReal(a) == \A k \in DOMAIN a : VNeg(k) \in DOMAIN a /\ a[VNeg(k)] = CConj(a[k])
\* < a, b > = mean over the box of a(x) b(x) for real fields = Sum_k conj(a[k]) b[k]
FInner(a, b) == CSum((DOMAIN a) \cap (DOMAIN b), LAMBDA k : CMul(CConj(a[k]), b[k]))

\* ---------------------------------------------------------------- symbols  (w \in Q)
Dsym(w, d, k) == Cx(QZero, QMul(w, QInt(k[d])))                  \* i w k_d
LapSym(w, k)  == CReal(QNeg(QMul(QMul(w, w), QInt(VSq(k)))))     \* - w^2 |k|^2
FD(w, d, a)   == FDiag(a, LAMBDA k : Dsym(w, d, k))
FLap(w, a)    == FDiag(a, LAMBDA k : LapSym(w, k))
FInvLap(w, a) == FDiag(FDropDC(a), LAMBDA k : CInv(LapSym(w, k)))    \* zero-mean solution
FSumD(D, f(_)) == FSumSet(1..D, f)

\* ---------------------------------------------------------------- the documented operators; par: record of rational parameters
\* multi-channel conservative convection    N_c = - b 1/2 Sum_d d_d (u_c u_d)
ConvMCCons(D, w, b, U) == [c \in 1..D |-> FScale(CReal(QMul(QNeg(b), QHalf)), FSumD(D, LAMBDA d : FD(w, d, FMul(U[c], U[d]))))]
\* multi-channel non-conservative           N_c = - b Sum_d u_d d_d u_c
ConvMCNon(D, w, b, U)  == [c \in 1..D |-> FScale(CReal(QNeg(b)), FSumD(D, LAMBDA d : FMul(U[d], FD(w, d, U[c]))))]
\* single-channel forms                      N = - b 1/2 (1.grad)(u^2)     |   N = - b u (1.grad) u
ConvSCCons(D, w, b, U) == << FScale(CReal(QMul(QNeg(b), QHalf)), FSumD(D, LAMBDA d : FD(w, d, FMul(U[1], U[1])))) >>
ConvSCNon(D, w, b, U)  == << FScale(CReal(QNeg(b)), FMul(U[1], FSumD(D, LAMBDA d : FD(w, d, U[1])))) >>
\* gradient norm                             N = - b 1/2 |grad u|^2  (- its mean when zero_mode_fix)
GradNormRaw(D, w, u)   == FSumD(D, LAMBDA d : FMul(FD(w, d, u), FD(w, d, u)))
GradNorm(D, w, b, fix, U) == [c \in 1..Len(U) |->
        LET g == GradNormRaw(D, w, U[c]) IN FScale(CReal(QMul(QNeg(b), QHalf)), IF fix THEN FDropDC(g) ELSE g)]
\* polynomial                                N = Sum_m coefs[m+1] u^m
RECURSIVE FPow(_, _, _)
FPow(D, u, m) == IF m = 0 THEN FConst(D, COne) ELSE FMul(u, FPow(D, u, m - 1))
Poly(D, coefs, U) == [c \in 1..Len(U) |-> FSumSet(1..Len(coefs), LAMBDA m : FScale(CReal(coefs[m]), FPow(D, U[c], m - 1)))]
\* general nonlinear                         N = b0 u^2 + b1 1/2 (1.grad)(u^2) + b2 1/2 |grad u|^2   (mean of the last removed when fix)
General(D, w, b, fix, U) == [c \in 1..Len(U) |->
        LET sq == FMul(U[c], U[c])
            g  == GradNormRaw(D, w, U[c])
        IN  FAdd(FScale(CReal(b[1]), sq),
            FAdd(FScale(CReal(QMul(b[2], QHalf)), FSumD(D, LAMBDA d : FD(w, d, sq))),
                 FScale(CReal(QMul(b[3], QHalf)), IF fix THEN FDropDC(g) ELSE g)))]
\* 2D vorticity convection                   psi = Lap^-1 omega ; velocity (d_y psi, - d_x psi) ; N = - b (u d_x omega + v d_y omega)
Vort2d(w, b, U) == LET om == U[1]
                       psi == FInvLap(w, om)
                       u == FD(w, 2, psi)
                       v == FNeg(FD(w, 1, psi))
                   IN  << FScale(CReal(QNeg(b)), FAdd(FMul(u, FD(w, 1, om)), FMul(v, FD(w, 2, om)))) >>
\* Leray projection                          P v = v - grad Lap^-1 div v   (identity on the mean)
Leray(D, w, V) == LET div == FSumD(D, LAMBDA d : FD(w, d, V[d]))
                      p == FInvLap(w, div)
                  IN  [c \in 1..D |-> FSub(V[c], FD(w, c, p))]
\* 3D rotational convection                  N = P( u x (curl u) )
Cross(A, B) == << FSub(FMul(A[2], B[3]), FMul(A[3], B[2])), FSub(FMul(A[3], B[1]), FMul(A[1], B[3])), FSub(FMul(A[1], B[2]), FMul(A[2], B[1])) >>
Curl(w, U)  == << FSub(FD(w, 2, U[3]), FD(w, 3, U[2])), FSub(FD(w, 3, U[1]), FD(w, 1, U[3])), FSub(FD(w, 1, U[2]), FD(w, 2, U[1])) >>
Rot3dRaw(w, U) == Cross(U, Curl(w, U))
\* Cahn-Hilliard                             N = s Lap(u^3)
CahnHilliard(D, w, s, U) == << FScale(CReal(s), FLap(w, FPow(D, U[1], 3))) >>
\* Gray-Scott                                N_1 = f (1 - u) - u v^2 ;  N_2 = - (f + k) v + u v^2
GrayScott(D, f, kk, U) == LET uvv == FMul(U[1], FMul(U[2], U[2]))
                          IN  << FAdd(FConst(D, CReal(f)), FSub(FScale(CReal(QNeg(f)), U[1]), uvv)),
                                 FAdd(FScale(CReal(QNeg(QAdd(f, kk))), U[2]), uvv) >>

SeqMap(U, g(_)) == [c \in 1..Len(U) |-> g(U[c])]
Trunc(U, cut) == SeqMap(U, LAMBDA f : FTrunc(f, cut))
=============================================================================
