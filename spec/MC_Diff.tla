---------------------------- MODULE MC_Diff ----------------------------
(* C07: derivatives that are exact consequences of the model.
   Every documented nonlinear term, with its dealiasing, is a polynomial map  P = Trunc o Op o Trunc  of degree <= 3 in the state, so its
   directional derivative is given EXACTLY by the five-point stencil on the line u + s v :
        DP(u)[v] = ( 8 (P(u+v) - P(u-v)) - (P(u+2v) - P(u-2v)) ) / 12              (exact for polynomials of degree <= 4)
   evaluated here in Q(i) on sparse spectra.  The machine:  point --Evaluate--> stencil --Combine--> jvp.
   TLC checks that the result is linear in the tangent, reduces to the polarisation formula for quadratic terms, is the term itself
   for the linear (Leray) map, lives in the retained band and is a real field.  Every terminal state is replayed against jax.jvp of the
   real nonlinear-function objects. *)
EXTENDS MC_Nonlin

VARIABLES tan, sten, jvp
dvars == <<term, D, N, inp, cur, pc, tan, sten, jvp>>

P(U) == Trunc(Op(term, D, N, Trunc(U, Cut(term, N))), Cut(term, N))
StScale(q, U) == [c \in 1..Len(U) |-> FScale(CReal(q), U[c])]
StSub(U, V) == [c \in 1..Len(U) |-> FSub(U[c], V[c])]
Line(U, V, s) == StAdd(U, StScale(QInt(s), V))
JvpOf(U, V) == StScale(<<1, 12>>, StSub(StScale(QInt(8), StSub(P(Line(U, V, 1)), P(Line(U, V, -1)))),
                                         StSub(P(Line(U, V, 2)), P(Line(U, V, -2)))))

\* points: a cubic term needs sums of two basis functions as primal (DP(a+b)[v] contains every mixed trilinear entry T(a,b,v)),
\* a quadratic term is fixed by single basis functions (DP(a)[v] = 2 B(a,v)); in 1D pairs are used throughout.
DCombos(t, d, n) == LET Bs == Basis(t, d, n) IN
    IF Degree(t) = 3 \/ d = 1 THEN { {a, b} : a \in Bs, b \in Bs } ELSE { {a} : a \in Bs }
DInit == /\ term \in TermSet
         /\ \E c \in DNSet : D = c \div 1000 /\ N = c % 1000
         /\ D \in Dims(term)
         /\ \E S \in DCombos(term, D, N) : inp = SumState(term, D, S)
         /\ \E b \in Basis(term, D, N) : tan = BasisState(term, D, b)
         /\ cur = inp /\ pc = "point" /\ sten = << >> /\ jvp = << >>
Evaluate == /\ pc = "point"
            /\ sten' = [s \in {-2, -1, 1, 2} |-> P(Line(inp, tan, s))]
            /\ pc' = "stencil" /\ UNCHANGED <<term, D, N, inp, cur, tan, jvp>>
CombineD == /\ pc = "stencil"
            /\ jvp' = StScale(<<1, 12>>, StSub(StScale(QInt(8), StSub(sten[1], sten[-1])), StSub(sten[2], sten[-2])))
            /\ pc' = "jvp" /\ UNCHANGED <<term, D, N, inp, cur, tan, sten>>
DNext == Evaluate \/ CombineD
DSpec == DInit /\ [][DNext]_dvars /\ WF_dvars(DNext)

\* ---------------------------------------------------------------- properties
AtJvp == pc = "jvp"
\* the stencil is exact: the derivative is linear in the tangent (this fails for a map that is not a polynomial of degree <= 4)
LinearOK == AtJvp => /\ JvpOf(inp, StScale(QInt(3), tan)) = StScale(QInt(3), jvp)
                     /\ JvpOf(inp, StScale(<<-1, 2>>, tan)) = StScale(<<-1, 2>>, jvp)
\* maps of degree <= 2 (with constant and linear parts): the central difference is already exact
Quadratic(t) == Degree(t) <= 2
PolarOK == (AtJvp /\ Quadratic(term)) => jvp = StScale(QHalf, StSub(sten[1], sten[-1]))
\* the linear map (Leray projection) is its own derivative
LinearMapOK == (AtJvp /\ Degree(term) = 1) => jvp = P(tan)
\* the tangent output is a real field inside the retained band
DBandOK == AtJvp => /\ \A c \in 1..Len(jvp) : FReal(jvp[c])
                    /\ \A k \in AllK(jvp) : VMaxAbs(k) <= Cut(term, N)
\* Euler's identity for homogeneous terms of degree m:  DP(u)[u] = m P(u)   (convection, gradient norm, vorticity and rotational terms)
Homogeneous(t) == t \in {"conv_mc_cons", "conv_mc_non", "conv_sc_cons", "conv_sc_non", "gradnorm_fix", "gradnorm_nofix", "vort2d", "rot3d", "cahn_hilliard", "leray"}
EulerOK == (AtJvp /\ Homogeneous(term)) => JvpOf(inp, inp) = StScale(QInt(Degree(term)), P(inp))
=============================================================================
