---------------------------- MODULE Tableau ----------------------------
(* The Cox-Matthews ETDRK schemes as data in the ring R = Q[E, z, 1/z],  E = exp(z/2),  z = dt * lambda.
   A ring element is a function  <<eExp, zExp>> -> Q  (finite support):   Sum q * E^eExp * z^zExp.
   All coefficient functions below are per unit dt (the code's coefficients are dt times these). *)
EXTENDS Exact

\* ---------------------------------------------------------------- ring operations
RPrune(a) == [k \in {x \in DOMAIN a : ~QIsZero(a[x])} |-> a[k]]
RZero == << >>
RMono(q, e, zp) == (<<e, zp>> :> q)
ROne == RMono(QOne, 0, 0)
RGet(a, k) == IF k \in DOMAIN a THEN a[k] ELSE QZero
RAdd(a, b) == RPrune([k \in DOMAIN a \cup DOMAIN b |-> QAdd(RGet(a, k), RGet(b, k))])
RScale(q, a) == RPrune([k \in DOMAIN a |-> QMul(q, a[k])])
RNeg(a) == RScale(QInt(-1), a)
RSub(a, b) == RAdd(a, RNeg(b))
RMul(a, b) ==
    LET P == (DOMAIN a) \X (DOMAIN b)
        key(p) == <<p[1][1] + p[2][1], p[1][2] + p[2][2]>>
        Ks == { key(p) : p \in P }
    IN  RPrune([k \in Ks |-> QSum({p \in P : key(p) = k}, LAMBDA p : QMul(a[p[1]], b[p[2]]))])
RSumSeq(sq) == FoldSet(LAMBDA i, acc : RAdd(sq[i], acc), RZero, DOMAIN sq)
\* polynomial  c0 + c1 z + c2 z^2 (integers) times E^e, divided by z^d
RPoly(e, cs, d) == RPrune([k \in { <<e, i - 1 - d>> : i \in DOMAIN cs } |-> QInt(cs[k[2] + 1 + d])])

RE  == RMono(QOne, 1, 0)                 \* E   = exp(z/2)
RE2 == RMono(QOne, 2, 0)                 \* E^2 = exp(z)

\* ---------------------------------------------------------------- the phi-type coefficient functions
P1  == RAdd(RPoly(1, <<1>>, 1), RPoly(0, <<-1>>, 1))                         \* (E - 1)/z        = (1/2) phi1(z/2)
F1  == RAdd(RPoly(2, <<1>>, 1), RPoly(0, <<-1>>, 1))                         \* (E^2 - 1)/z      = phi1(z)
F2  == RAdd(RPoly(2, <<1>>, 2), RPoly(0, <<-1, -1>>, 2))                     \* (E^2 - 1 - z)/z^2 = phi2(z)
B1  == RAdd(RPoly(0, <<-4, -1>>, 3), RPoly(2, <<4, -3, 1>>, 3))              \* (-4 - z + E^2(4 - 3z + z^2))/z^3
B2h == RAdd(RPoly(0, <<2, 1>>, 3), RPoly(2, <<-2, 1>>, 3))                   \* (2 + z + E^2(-2 + z))/z^3
B3  == RAdd(RPoly(0, <<-4, -3, -1>>, 3), RPoly(2, <<4, -1>>, 3))             \* (-4 - 3z - z^2 + E^2(4 - z))/z^3

CoefNames == {"P1", "F1", "F2", "B1", "B2h", "B3"}
Coef(n) == CASE n = "P1" -> P1 [] n = "F1" -> F1 [] n = "F2" -> F2 [] n = "B1" -> B1 [] n = "B2h" -> B2h [] n = "B3" -> B3

\* ---------------------------------------------------------------- stage structure (as the schemes are written)
\* A stage is  prop * base + Sum_m  coef_m * ( Sum_j  mult_m[j] * N_j ),  N_j = N(stage j), stage 0 = u.
\* prop \in {"E", "E2", "one"},  base = index of an earlier stage (0 = u), terms = sequence of <<coefName, mults>>.
Stage(prop, base, terms) == [prop |-> prop, base |-> base, terms |-> terms]
Scheme(p) ==
    CASE p = 0 -> << Stage("E2", 0, << >>) >>
      [] p = 1 -> << Stage("E2", 0, << <<"F1", <<1>>>> >>) >>
      [] p = 2 -> << Stage("E2", 0, << <<"F1", <<1>>>> >>),
                     Stage("one", 1, << <<"F2", <<-1, 1>>>> >>) >>
      [] p = 3 -> << Stage("E", 0, << <<"P1", <<1>>>> >>),
                     Stage("E2", 0, << <<"F1", <<-1, 2>>>> >>),
                     Stage("E2", 0, << <<"B1", <<1, 0, 0>>>>, <<"B2h", <<0, 4, 0>>>>, <<"B3", <<0, 0, 1>>>> >>) >>
      [] p = 4 -> << Stage("E", 0, << <<"P1", <<1>>>> >>),
                     Stage("E", 0, << <<"P1", <<0, 1>>>> >>),
                     Stage("E", 1, << <<"P1", <<-1, 0, 2>>>> >>),
                     Stage("E2", 0, << <<"B1", <<1, 0, 0, 0>>>>, <<"B2h", <<0, 2, 2, 0>>>>, <<"B3", <<0, 0, 0, 1>>>> >>) >>
\* abscissae 2*c_i of the stages at which N is evaluated (u itself is at 0): the last entry is the full step
TwoC(p) == CASE p = 0 -> <<2>> [] p = 1 -> <<2>> [] p = 2 -> <<2, 2>> [] p = 3 -> <<1, 2, 2>> [] p = 4 -> <<1, 1, 2, 2>>
Prop(name) == CASE name = "E" -> RE [] name = "E2" -> RE2 [] name = "one" -> ROne

\* ---------------------------------------------------------------- power series in z
RECURSIVE Fact(_)
Fact(n) == IF n = 0 THEN 1 ELSE n * Fact(n - 1)
\* coefficient of z^m in  E^e = exp(e z / 2)
ExpCoef(e, m) == IF m < 0 THEN QZero ELSE IF m = 0 THEN QOne ELSE QMul(QPow(Q(e, 2), m), <<1, Fact(m)>>)
\* coefficient of z^m of a ring element
SeriesCoef(a, m) == QSum(DOMAIN a, LAMBDA k : QMul(a[k], ExpCoef(k[1], m - k[2])))
MinZ(a) == IF DOMAIN a = {} THEN 0 ELSE CHOOSE m \in {k[2] : k \in DOMAIN a} : \A k \in DOMAIN a : m <= k[2]
\* no pole at z = 0
Regular(a) == \A m \in MinZ(a)..(-1) : QIsZero(SeriesCoef(a, m))
=============================================================================
