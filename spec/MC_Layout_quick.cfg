INIT Init
NEXT Next
CONSTANTS
  DNSet = {1003,1004,1005,1006,1007,1008,1009,1010,1011,1012,1013,1014,1015,1016,1017,1018,1024,1025,1032,1049,1064,1098,2003,2004,2005,2006,2007,2008,2009,2010,2011,2012,3003,3004,3005,3006}
INVARIANT TypeOK
INVARIANT ConjOK
INVARIANT StoreOK
INVARIANT DofCount
INVARIANT ScalingOK
INVARIANT MaskOK
INVARIANT BinOK
INVARIANT BlocksOK
INVARIANT UnitOK
CHECK_DEADLOCK FALSE
