---------------------------- MODULE MC_Fft ----------------------------
(* Forward / inverse transform of every real basis function of the grid, exactly.
   State: a configuration (D, N), an integer wavenumber vector kappa (possibly beyond the grid: aliases),
   cos|sin, the predicted half-spectrum of the sampled field and the two-sided spectrum of ifft(fft(.)).
   Actions walk the mode space, toggle the phase and shift by the grid period (aliasing). *)
EXTENDS Layout

CONSTANTS DNSet, AliasShifts     \* configurations 1000*D+N ; max number of alias shifts per axis (0 or 1)
VARIABLES D, N, kappa, trig, shifts, half, back
vars == <<D, N, kappa, trig, shifts, half, back>>

Half(d, n, k, t) == HalfOf(d, n, BasisTS(k, t))
Back(d, n, k, t) == TwoSidedOf(d, n, Half(d, n, k, t))

Lo(n) == -(n \div 2)
Hi(n) == (n - 1) \div 2

Init == /\ \E c \in DNSet : D = c \div 1000 /\ N = c % 1000
        /\ kappa = Tup(D, LAMBDA d : Lo(N))
        /\ trig = "cos"
        /\ shifts = 0
        /\ half = Half(D, N, kappa, trig)
        /\ back = Back(D, N, kappa, trig)

Derived == /\ half' = Half(D, N, kappa', trig')
           /\ back' = Back(D, N, kappa', trig')

NextMode(a) == /\ shifts = 0
               /\ kappa[a] < Hi(N)
               /\ kappa' = Tup(D, LAMBDA d : IF d = a THEN kappa[d] + 1 ELSE kappa[d])
               /\ UNCHANGED <<D, N, trig, shifts>>
               /\ Derived

Toggle == /\ trig = "cos" /\ shifts = 0
          /\ trig' = "sin"
          /\ UNCHANGED <<D, N, kappa, shifts>>
          /\ Derived

Alias(a, sg) == /\ shifts < AliasShifts
                /\ kappa' = Tup(D, LAMBDA d : IF d = a THEN kappa[d] + sg * N ELSE kappa[d])
                /\ shifts' = shifts + 1
                /\ UNCHANGED <<D, N, trig>>
                /\ Derived

Next == (\E a \in 1..D : NextMode(a)) \/ Toggle \/ (\E a \in 1..D, sg \in {-1, 1} : Alias(a, sg))

\* ------------------------------------------------------------------ properties
kw == VWrap(N, kappa)
SelfConjMode == VWrap(N, VNeg(kappa)) = kw

\* the image lies in exactly the stored slot(s) of +-kappa
SupportOK == DOMAIN half \subseteq { StoreIdx(D, N, kappa)[1], StoreIdx(D, N, VNeg(kappa))[1] }
NonTrivial == (trig = "cos" \/ ~SelfConjMode) => DOMAIN half # {}

\* magnitude and phase: N^D/2 (cos) resp. -+ i N^D/2 (sin) at the slot of +kappa, N^D at self-conjugate modes
ValueOK == LET ND == IPow(N, D)
               t == StoreIdx(D, N, kappa)
               full == CInt(ND)
               hlf == CScale(QHalf, CInt(ND))
           IN  IF SelfConjMode
               THEN (IF trig = "cos" THEN half = (t[1] :> full) ELSE half = << >>)
               ELSE /\ t[1] \in DOMAIN half
                    /\ half[t[1]] = (IF trig = "cos" THEN hlf
                                     ELSE IF t[2] THEN CMulI(hlf) ELSE CNeg(CMulI(hlf)))

\* ifft(fft(u)) is the sampled u: the same basis function with the wavenumber wrapped onto the grid
RoundTripOK == IF SelfConjMode
               THEN (IF trig = "cos" THEN back = (kw :> COne) ELSE back = << >>)
               ELSE LET b == BasisTS(kappa, trig)
                    IN  back = (kw :> b[kappa]) @@ (VWrap(N, VNeg(kappa)) :> b[VNeg(kappa)])

\* Parseval with the rfft weights
ParsevalOK == MeanSquare(D, N, half) =
                 (IF SelfConjMode THEN (IF trig = "cos" THEN QOne ELSE QZero) ELSE QHalf)

\* aliasing: shifting any component by N does not change the sampled field
AliasInvariant == [][(\E a \in 1..D, sg \in {-1, 1} : Alias(a, sg)) => half' = half]_vars
=============================================================================
