---------------------------- MODULE Exact ----------------------------
(* Exact arithmetic for the exponax specification.
   Q  : rationals  <<num, den>>, den > 0, gcd(num, den) = 1
   C  : Gaussian rationals [re |-> Q, im |-> Q]
   TLC integers are 32 bit and overflow is an error (not a wrap), so the
   operations reduce before multiplying. *)
EXTENDS Integers, Sequences, FiniteSets, FiniteSetsExt, TLC

Abs(x) == IF x < 0 THEN -x ELSE x
Max2(a, b) == IF a >= b THEN a ELSE b
Min2(a, b) == IF a <= b THEN a ELSE b

RECURSIVE GcdNat(_, _)
GcdNat(a, b) == IF b = 0 THEN a ELSE GcdNat(b, a % b)
Gcd(a, b) == GcdNat(Abs(a), Abs(b))

RECURSIVE IPow(_, _)
IPow(b, e) == IF e = 0 THEN 1 ELSE b * IPow(b, e - 1)

\* ---------------------------------------------------------------- Q
Q(n, d) == LET g == Gcd(n, d)
               s == IF d < 0 THEN -1 ELSE 1
           IN  <<s * (n \div g), s * (d \div g)>>
QInt(n)  == <<n, 1>>
QZero    == <<0, 1>>
QOne     == <<1, 1>>
QHalf    == <<1, 2>>
QNeg(a)  == <<-a[1], a[2]>>
QAdd(a, b) == IF a[1] = 0 THEN b ELSE IF b[1] = 0 THEN a ELSE
              LET g == Gcd(a[2], b[2])
              IN  Q(a[1] * (b[2] \div g) + b[1] * (a[2] \div g), (a[2] \div g) * b[2])
QSub(a, b) == QAdd(a, QNeg(b))
QMul(a, b) == IF a[1] = 0 \/ b[1] = 0 THEN QZero ELSE
              LET g1 == Gcd(a[1], b[2])
                  g2 == Gcd(b[1], a[2])
              IN  <<(a[1] \div g1) * (b[1] \div g2), (a[2] \div g2) * (b[2] \div g1)>>
QInv(a)  == IF a[1] < 0 THEN <<-a[2], -a[1]>> ELSE <<a[2], a[1]>>     \* a # 0
QDiv(a, b) == QMul(a, QInv(b))
QSign(a) == IF a[1] > 0 THEN 1 ELSE IF a[1] < 0 THEN -1 ELSE 0
QLe(a, b) == QSign(QSub(a, b)) <= 0
QLt(a, b) == QSign(QSub(a, b)) < 0
QIsZero(a) == a[1] = 0
RECURSIVE QPow(_, _)
QPow(a, e) == IF e = 0 THEN QOne ELSE IF e < 0 THEN QPow(QInv(a), -e) ELSE QMul(a, QPow(a, e - 1))
QSum(S, f(_)) == FoldSet(LAMBDA x, acc : QAdd(f(x), acc), QZero, S)
QSumSeq(sq) == FoldSet(LAMBDA i, acc : QAdd(sq[i], acc), QZero, DOMAIN sq)

\* ---------------------------------------------------------------- C = Q(i)
Cx(re, im) == [re |-> re, im |-> im]
CZero == Cx(QZero, QZero)
COne  == Cx(QOne, QZero)
CI    == Cx(QZero, QOne)
CReal(q) == Cx(q, QZero)
CInt(n)  == Cx(QInt(n), QZero)
CAdd(a, b) == Cx(QAdd(a.re, b.re), QAdd(a.im, b.im))
CNeg(a)    == Cx(QNeg(a.re), QNeg(a.im))
CSub(a, b) == CAdd(a, CNeg(b))
CMul(a, b) == Cx(QSub(QMul(a.re, b.re), QMul(a.im, b.im)), QAdd(QMul(a.re, b.im), QMul(a.im, b.re)))
CConj(a)   == Cx(a.re, QNeg(a.im))
CScale(q, a) == Cx(QMul(q, a.re), QMul(q, a.im))
CAbs2(a)   == QAdd(QMul(a.re, a.re), QMul(a.im, a.im))
CInv(a)    == CScale(QInv(CAbs2(a)), CConj(a))                          \* a # 0
CDiv(a, b) == CMul(a, CInv(b))
CIsZero(a) == QIsZero(a.re) /\ QIsZero(a.im)
CMulI(a)   == Cx(QNeg(a.im), a.re)                                     \* i * a
RECURSIVE CPow(_, _)
CPow(a, e) == IF e = 0 THEN COne ELSE CMul(a, CPow(a, e - 1))
CSum(S, f(_)) == FoldSet(LAMBDA x, acc : CAdd(f(x), acc), CZero, S)

\* ---------------------------------------------------------------- integer vectors (tuples 1..D)
\* Vectors are always built as explicit tuples (D <= 3, the library's limit): TLC compares and looks up
\* explicit tuples reliably, whereas [d \in 1..D |-> e] values inside normalised function domains do not.
Tup(D, f(_)) == IF D = 1 THEN <<f(1)>> ELSE IF D = 2 THEN <<f(1), f(2)>> ELSE <<f(1), f(2), f(3)>>
VAdd(p, q) == Tup(Len(p), LAMBDA d : p[d] + q[d])
VNeg(p)    == Tup(Len(p), LAMBDA d : -p[d])
VSq(p)     == FoldSet(LAMBDA d, acc : p[d] * p[d] + acc, 0, DOMAIN p)
VDot(p, q) == FoldSet(LAMBDA d, acc : p[d] * q[d] + acc, 0, DOMAIN p)
VSum(p)    == FoldSet(LAMBDA d, acc : p[d] + acc, 0, DOMAIN p)
VMaxAbs(p) == FoldSet(LAMBDA d, acc : Max2(Abs(p[d]), acc), 0, DOMAIN p)
VZero(D)   == Tup(D, LAMBDA d : 0)
=============================================================================
