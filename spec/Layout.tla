---------------------------- MODULE Layout ----------------------------
(* The rfft half-spectrum layout of exponax, transcribed from the documentation of
   build_wavenumbers, build_scaling_array, get_modes_slices, low_pass_filter_mask,
   oddball_filter_mask, get_spectrum and from the definition of the DFT.
   A stored index is a tuple s \in [1..D -> Nat] (0-based entries); axis D is the halved (rfft) axis. *)
EXTENDS Exact

AxisLen(D, N, d) == IF d = D THEN (N \div 2) + 1 ELSE N
Idx(D, N)   == LET R == 0..(N-1)
                   H == 0..(N \div 2)
               IN  IF D = 1 THEN {<<a>> : a \in H} ELSE IF D = 2 THEN R \X H ELSE R \X R \X H
FftFreq(N, i) == IF i < (N + 1) \div 2 THEN i ELSE i - N
K(D, N, s)  == Tup(D, LAMBDA d : IF d = D THEN s[d] ELSE FftFreq(N, s[d]))
SqK(D, N, s) == VSq(K(D, N, s))

\* canonical (fftfreq) representative of an integer wavenumber on a grid with N points
Wrap(N, k)  == ((k + (N \div 2)) % N) - (N \div 2)
VWrap(N, p) == Tup(Len(p), LAMBDA d : Wrap(N, p[d]))
\* all wavenumber vectors the full grid distinguishes
FullModes(D, N) == LET R == (-(N \div 2))..((N - 1) \div 2)
                   IN  IF D = 1 THEN {<<a>> : a \in R} ELSE IF D = 2 THEN R \X R ELSE R \X R \X R

OnSelfLine(D, N, s) == s[D] = 0 \/ (N % 2 = 0 /\ s[D] = N \div 2)      \* -k is stored too
Conj(D, N, s) == Tup(D, LAMBDA d : IF d = D THEN s[d] ELSE (N - s[d]) % N)
SelfConj(D, N, s) == OnSelfLine(D, N, s) /\ Conj(D, N, s) = s
Weight(D, N, s) == IF OnSelfLine(D, N, s) THEN 1 ELSE 2
IsNyqAxis(D, N, s, d) == N % 2 = 0 /\ (IF d = D THEN s[d] = N \div 2 ELSE s[d] = N \div 2)
HasNyq(D, N, s) == \E d \in 1..D : IsNyqAxis(D, N, s, d)

\* where the (two-sided) wavenumber vector p is stored: <<index, conjugated?>>
\* p is any integer vector; it is first wrapped onto the grid.
StoreIdx(D, N, p) ==
    LET m == Tup(D, LAMBDA d : p[d] % N)
    IN  IF m[D] <= N \div 2 THEN <<m, FALSE>>
        ELSE <<Tup(D, LAMBDA d : (N - m[d]) % N), TRUE>>

\* ---------------------------------------------------------------- scaling arrays
AxisDen(D, N, s, d, denLast, denOther) ==
    IF K(D, N, s)[d] = 0 \/ IsNyqAxis(D, N, s, d) THEN 1 ELSE IF d = D THEN denLast ELSE denOther
ScalDen(D, N, s, denLast, denOther) ==
    FoldSet(LAMBDA d, acc : AxisDen(D, N, s, d, denLast, denOther) * acc, 1, 1..D)
\* scaling(mode)[s] = N^D / ScalDen ; (denLast, denOther) per documented mode
DenNorm(D, N, s)  == ScalDen(D, N, s, 1, 1)
DenRecon(D, N, s) == ScalDen(D, N, s, 2, 1)
DenCoef(D, N, s)  == ScalDen(D, N, s, 2, 2)

\* ---------------------------------------------------------------- masks
LowPassBox(D, N, s, c)  == \A d \in 1..D : Abs(K(D, N, s)[d]) <= c
LowPassBall(D, N, s, c) == SqK(D, N, s) <= c * c
Oddball(D, N, s) == (N % 2 = 0) => LowPassBox(D, N, s, (N \div 2) - 1)
DealiasCut(N, fn, fd) == ((fn * (N \div 2)) \div fd) - 1              \* floor(f * (N//2)) - 1
Kept(D, N, s, fn, fd) == LowPassBox(D, N, s, DealiasCut(N, fn, fd))
KeptK(p, N, fn, fd)   == VMaxAbs(p) <= DealiasCut(N, fn, fd)

\* ---------------------------------------------------------------- radial bins
Bin(D, N, s) == LET q == 4 * SqK(D, N, s) IN
                CHOOSE b \in 0..(2 * N) : (b = 0 \/ (2*b-1)*(2*b-1) <= q) /\ q < (2*b+1)*(2*b+1)

\* ---------------------------------------------------------------- mode blocks of get_modes_slices(D, n) applied to a grid with Nbig points
LeftRange(n)        == IF n % 2 = 0 THEN 0..((n \div 2) - 1) ELSE 0..(n \div 2)
RightRange(Nbig, n) == (Nbig - (n \div 2))..(Nbig - 1)
InBlocks(D, Nbig, n, s) == s[D] <= n \div 2
                           /\ \A d \in 1..(D-1) : s[d] \in LeftRange(n) \/ s[d] \in RightRange(Nbig, n)
\* number of blocks an index lies in (must be <= 1 for the copy to be well defined)
BlockCount(D, Nbig, n, s) ==
    IF s[D] > n \div 2 THEN 0
    ELSE FoldSet(LAMBDA d, acc : acc * ((IF s[d] \in LeftRange(n) THEN 1 ELSE 0) + (IF s[d] \in RightRange(Nbig, n) THEN 1 ELSE 0)),
                 1, 1..(D-1))
\* the index in a grid with Nnew points of the same block position (left ranges align at 0, right ranges at the end)
BlockMap(D, Nold, Nnew, n, s) ==
    Tup(D, LAMBDA d : IF d = D THEN s[d] ELSE IF s[d] \in LeftRange(n) THEN s[d] ELSE s[d] - Nold + Nnew)

\* ---------------------------------------------------------------- sparse spectra
\* Two-sided sparse spectrum: function from a finite set of integer vectors (true wavenumbers, any size)
\* to C.  The field is u(x) = Sum_p c[p] exp(i w p.x).  It is real iff c[-p] = conj c[p].
TSReal(c) == \A p \in DOMAIN c : VNeg(p) \in DOMAIN c /\ c[VNeg(p)] = CConj(c[p])
\* the same for spectra whose wavenumbers are canonical grid representatives (the Nyquist component is its own partner)
TSRealN(N, c) == \A p \in DOMAIN c : VWrap(N, VNeg(p)) \in DOMAIN c /\ c[VWrap(N, VNeg(p))] = CConj(c[p])
TSPrune(c) == [p \in {q \in DOMAIN c : ~CIsZero(c[q])} |-> c[p]]

\* Sampling on the N-grid and forward rfftn: half-spectrum as a sparse function Idx -> C, value N^D * (sum of aliases)
HalfOf(D, N, c) ==
    LET tgt(p) == StoreIdx(D, N, p)
        S == { tgt(p)[1] : p \in {q \in DOMAIN c : ~tgt(q)[2]} }
        h == [s \in S |-> CSum({p \in DOMAIN c : tgt(p)[1] = s /\ ~tgt(p)[2]}, LAMBDA p : c[p])]
        ND == IPow(N, D)
    IN  [s \in {t \in S : ~CIsZero(h[t])} |-> CScale(QInt(ND), h[s])]

\* what irfftn does to an arbitrary (possibly non-Hermitian) half-spectrum on the self-conjugate lines
Realify(D, N, h) ==
    LET get(s) == IF s \in DOMAIN h THEN h[s] ELSE CZero
        S == DOMAIN h \cup { Conj(D, N, s) : s \in {t \in DOMAIN h : OnSelfLine(D, N, t)} }
        v(s) == IF OnSelfLine(D, N, s)
                THEN CScale(QHalf, CAdd(get(s), CConj(get(Conj(D, N, s)))))
                ELSE get(s)
    IN  [s \in {t \in S : ~CIsZero(v(t))} |-> v(s)]

\* canonical two-sided spectrum (wavenumbers wrapped onto the grid) of the real field irfftn(h)
TwoSidedOf(D, N, h) ==
    LET r == Realify(D, N, h)
        ND == IPow(N, D)
        P == { VWrap(N, K(D, N, s)) : s \in DOMAIN r } \cup { VWrap(N, VNeg(K(D, N, s))) : s \in DOMAIN r }
        val(p) == LET t == StoreIdx(D, N, p)
                  IN  IF t[1] \in DOMAIN r
                      THEN CScale(<<1, ND>>, IF t[2] THEN CConj(r[t[1]]) ELSE r[t[1]])
                      ELSE CZero
    IN  [p \in {q \in P : ~CIsZero(val(q))} |-> val(p)]

\* real basis functions: cos(w kappa.x) and sin(w kappa.x) as two-sided spectra
BasisTS(kappa, trig) ==
    IF VSq(kappa) = 0 THEN (IF trig = "cos" THEN (kappa :> COne) ELSE (kappa :> CZero))
    ELSE IF trig = "cos" THEN (kappa :> CReal(QHalf)) @@ (VNeg(kappa) :> CReal(QHalf))
    ELSE (kappa :> Cx(QZero, QNeg(QHalf))) @@ (VNeg(kappa) :> Cx(QZero, QHalf))

\* mean square of the sampled field from its half spectrum (Parseval with the rfft weights)
MeanSquare(D, N, h) ==
    LET ND == IPow(N, D)
    IN  QMul(<<1, ND>>, QMul(<<1, ND>>,
            QSum(DOMAIN h, LAMBDA s : QMul(QInt(Weight(D, N, s)), CAbs2(h[s])))))
=============================================================================
