---------------------------- MODULE Trace_Monitor ----------------------------
(* Trace specification for monitored rollouts of real steppers.  The abstract machine is the step counter of MC_Rollout's
   scan (one ScanStep per stepper call); every recorded step carries the integer residuals (in units of rounding, computed by
   the recorder against the exact quantity the specification says is conserved / bounded / zero) of the monitored invariants:
       mean drift per channel (C09), spectral divergence (C10), norm ratio excess over 1 (C11).
   A trace is accepted iff the steps are consecutive from 1 and every residual stays within MaxUlps. *)
EXTENDS Integers, Sequences, Json, IOUtils, TLC

CONSTANT MaxUlps
Traces == JsonDeserialize(IOEnv.TRACE_FILE)
VARIABLES tid, l, i
vars == <<tid, l, i>>
Ev == Traces[tid].events
Init == tid \in 1..Len(Traces) /\ l = 1 /\ i = 0
Step == /\ l <= Len(Ev)
        /\ Ev[l].ev = "Step"
        /\ Ev[l].i = i + 1
        /\ \A r \in 1..Len(Ev[l].res) : Ev[l].res[r] <= MaxUlps
        /\ i' = i + 1 /\ l' = l + 1 /\ UNCHANGED tid
Next == Step
Spec == Init /\ [][Next]_vars
CounterOK == i = l - 1
=============================================================================
