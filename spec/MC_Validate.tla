---------------------------- MODULE MC_Validate ----------------------------
(* Accept / reject decisions of exponax, as decision tables.
   (1) state-shape validation of steppers, repeated steppers and the Poisson solver:
         Expected(C, D, N) = <<C, N, ..., N>> ;  stepper / repeated: accept iff shape = Expected ; poisson: accept iff Tail(shape) = <<N,...,N>>
       the machine mutates a well-formed shape (actions) and decides each result;
   (2) the documented constructor / argument restrictions as a total decision function over enumerated argument rows. *)
EXTENDS Integers, Sequences, FiniteSets, TLC

CONSTANTS Ns, MaxC
VARIABLES kind, D, N, C, shape, mutation, decision
vars == <<kind, D, N, C, shape, mutation, decision>>

Kinds == {"stepper", "repeated", "poisson"}
Spatial(d, n) == [i \in 1..d |-> n]
Expected(c, d, n) == <<c>> \o Spatial(d, n)
Decide(kd, c, d, n, sh) ==
    IF kd = "poisson" THEN (IF Len(sh) >= 1 /\ Tail(sh) = Spatial(d, n) THEN "accept" ELSE "reject")
    ELSE IF sh = Expected(c, d, n) THEN "accept" ELSE "reject"

Init == /\ kind \in Kinds /\ D \in 1..3 /\ N \in Ns /\ C \in 1..MaxC
        /\ shape = Expected(C, D, N) /\ mutation = "none"
        /\ decision = Decide(kind, C, D, N, shape)

Mutations(sh, d, n) ==
    { <<"channels+1", [sh EXCEPT ![1] = sh[1] + 1]>>,
      <<"channels-1", [sh EXCEPT ![1] = sh[1] - 1]>>,
      <<"channels=1", [sh EXCEPT ![1] = 1]>>,
      <<"batch1", <<1>> \o sh>>,
      <<"batch2", <<2>> \o sh>>,
      <<"drop_last_axis", SubSeq(sh, 1, Len(sh) - 1)>>,
      <<"drop_channel_axis", Tail(sh)>>,
      <<"all_axes+1", <<sh[1]>> \o Spatial(d, n + 1)>>,
      <<"trailing1", sh \o <<1>>>> }
    \cup { <<"axis+1", [sh EXCEPT ![a + 1] = n + 1]>> : a \in 1..d }
    \cup { <<"axis-1", [sh EXCEPT ![a + 1] = n - 1]>> : a \in 1..d }
    \cup { <<"axis=1", [sh EXCEPT ![a + 1] = 1]>> : a \in 1..d }

Mutate == /\ mutation = "none"
          /\ \E m \in Mutations(shape, D, N) :
                /\ \A i \in 1..Len(m[2]) : m[2][i] >= 0
                /\ mutation' = m[1] /\ shape' = m[2]
          /\ decision' = Decide(kind, C, D, N, shape')
          /\ UNCHANGED <<kind, D, N, C>>
Next == Mutate

\* exactly the expected shape is accepted by steppers; every genuine mutation is rejected
OneAccepted == (kind # "poisson") => (decision = "accept" <=> shape = Expected(C, D, N))
MutantsRejected == (mutation # "none" /\ shape # Expected(C, D, N) /\ kind # "poisson") => decision = "reject"
\* the Poisson solver is free in the channel count only
PoissonOK == (kind = "poisson") => (decision = "accept" <=> (Len(shape) = D + 1 /\ \A i \in 2..(D + 1) : shape[i] = N))

\* ------------------------------------------------------------------ (2) documented restrictions
Dim2Only == {"NavierStokesVorticity", "KolmogorovFlowVorticity", "GeneralVorticityConvectionStepper",
             "VorticityConvection2d", "VorticityConvection2dKolmogorov"}
Dim3Only == {"NavierStokesVelocity", "KolmogorovFlowVelocity", "ProjectedConvection3d", "ProjectedConvection3dKolmogorov"}
Dim1Only == {"RandomSineWaves1d"}
ScalingModes == {"norm_compensation", "reconstruction", "coef_extraction"}
\* shapes a user-defined stepper's _build_linear_operator may return, as mutations of (C, N, ..., N, N div 2 + 1): the constructor accepts exactly
\* the per-channel operator and the one broadcast over channels (leading axis 1) - never a broadcast over wavenumbers
OperatorMutations == {"per_channel", "shared", "one_channel_too_many", "physical_last_axis", "no_channel_axis", "extra_axis",
                      "singleton_axis_1", "singleton_axis_2", "singleton_axis_3", "singleton_last_axis", "all_singleton"}
Rows ==
       { <<"class_dim", c, d>> : c \in Dim2Only \cup Dim3Only \cup Dim1Only, d \in 1..3 }
  \cup { <<"laplace_order", o>> : o \in (-2)..8 }
  \cup { <<"gip_order", o>> : o \in (-1)..7 }
  \cup { <<"gip_velocity_len", d, n>> : d \in 1..3, n \in 1..4 }
  \cup { <<"nonlinear_coefficients_len", n>> : n \in 0..5 }
  \cup { <<"scaling_mode", m>> : m \in ScalingModes \cup {"bogus", "Reconstruction", ""} }
  \cup { <<"ifft_num_points", d, g>> : d \in 1..3, g \in BOOLEAN }
  \cup { <<"make_incompressible_channels", d, c>> : d \in 2..3, c \in 1..4 }
  \cup { <<"convection_channels", d, c, FALSE>> : d \in 1..3, c \in 1..3 }
  \cup { <<"convection_channels", d, 1, TRUE>> : d \in 1..3 }      \* single-channel form: one channel in any dimension
  \cup { <<"metric_mode", f, m, r>> : f \in {"spatial", "fourier"}, m \in {"absolute", "normalized", "symmetric"}, r \in BOOLEAN }
  \cup { <<"ic_flags", zm, so, mo>> : zm \in BOOLEAN, so \in BOOLEAN, mo \in BOOLEAN }
  \cup { <<"offset_flags", off, so, mo>> : off \in BOOLEAN, so \in BOOLEAN, mo \in BOOLEAN }
  \cup { <<"sine_lengths", a, b, c>> : a \in 1..2, b \in 1..2, c \in 1..2 }
  \cup { <<"windows", T, l>> : T \in 1..4, l \in 1..5 }
  \cup { <<"poisson_order", d, o>> : d \in 1..3, o \in 1..8 }
  \cup { <<"operator_shape", d, c, m>> : d \in 1..3, c \in 1..3, m \in OperatorMutations }

Allowed(r) ==
    CASE r[1] = "class_dim" -> IF r[2] \in Dim2Only THEN r[3] = 2 ELSE IF r[2] \in Dim3Only THEN r[3] = 3 ELSE r[3] = 1
      [] r[1] = "laplace_order" -> r[2] % 2 = 0
      [] r[1] = "gip_order" -> r[2] % 2 = 1
      [] r[1] = "gip_velocity_len" -> r[2] = r[3]
      [] r[1] = "nonlinear_coefficients_len" -> r[2] = 3
      [] r[1] = "scaling_mode" -> r[2] \in ScalingModes
      [] r[1] = "ifft_num_points" -> r[2] >= 2 \/ r[3]
      [] r[1] = "make_incompressible_channels" -> r[2] = r[3]
      [] r[1] = "convection_channels" -> r[4] \/ r[2] = r[3]            \* multi-channel convection needs C = D
      [] r[1] = "metric_mode" -> r[4] \/ r[3] = "absolute"              \* relative modes need a reference (fourier has no symmetric mode: n/a)
      [] r[1] = "ic_flags" -> ~(~r[2] /\ r[3]) /\ ~(r[3] /\ r[4])
      [] r[1] = "offset_flags" -> ~(r[2] /\ r[3]) /\ ~(r[3] /\ r[4])
      [] r[1] = "sine_lengths" -> r[2] = r[3] /\ r[3] = r[4]
      [] r[1] = "windows" -> r[3] <= r[2]
      [] r[1] = "poisson_order" -> r[3] % 2 = 0
      [] r[1] = "operator_shape" -> r[4] \in {"per_channel", "shared"}
\* the table is total and two-valued; exported through one ASSUME so that TLC evaluates it and the harness reads it
Table == [r \in Rows |-> IF Allowed(r) THEN "ok" ELSE "ValueError"]
TableTotal == \A r \in Rows : Table[r] \in {"ok", "ValueError"}
ASSUME TableTotal
ASSUME PrintT(<<"TABLE", Table>>)
=============================================================================
