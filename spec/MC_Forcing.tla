---------------------------- MODULE MC_Forcing ----------------------------
(* Kolmogorov forcing and the laminar solution.
   (1) the documented forcing as a sparse two-sided spectrum (in units of the injection scale gamma):
         3D velocity :  f_0 = gamma sin(k w x_1)            -> channel 1, modes (0,+-k,0), coefficients -+ i/2
         2D vorticity:  f   = - k w gamma cos(k w x_1)      -> modes (0,+-k), coefficients - k w / 2
       Hermitian, representable on the grid iff 1 <= k < N/2 - and, for the cosine only, also at the Nyquist wavenumber k = N/2 of an even
       grid (cos(pi j) = (-1)^j is a grid function with a real Nyquist coefficient; the sine vanishes on the grid there) - and the convective term vanishes on the forced shear mode,
       so the nonlinear term along the laminar solution is the forcing itself at every ETDRK stage.
   (2) with a constant nonlinear term every ETDRK order reduces (MC_ETDRK.RowSumOK) to  u' = E^2 u + dt phi1(z) f ;
       started from rest, n steps give  u_n = f (E^(2n) - 1)/z dt  =  f (exp(n sigma dt) - 1)/sigma :  the machine below iterates
       the recurrence in the ring Q[E,z,1/z] and checks the closed form. *)
EXTENDS Nonlin, Tableau

CONSTANTS DNSet, MaxMode, MaxSteps
VARIABLES kind, D, N, kmode, forcing, n, acc
vars == <<kind, D, N, kmode, forcing, n, acc>>

w == <<1, 1>>          \* the spectrum is stated for w = 1; the physical forcing carries w through k w (vorticity) - see WFactor
Forcing(kd, km) ==
    IF kd = "velocity3d"
    THEN << (<<0, km, 0>> :> Cx(QZero, QNeg(QHalf))) @@ (<<0, -km, 0>> :> Cx(QZero, QHalf)), FZero, FZero >>
    ELSE << (<<0, km>> :> CReal(QNeg(<<km, 2>>))) @@ (<<0, -km>> :> CReal(QNeg(<<km, 2>>))) >>
WFactor(kd) == IF kd = "velocity3d" THEN 0 ELSE 1      \* power of w = 2 pi / L multiplying the coefficients above

Init == /\ kind \in {"velocity3d", "vorticity2d"}
        /\ \E c \in DNSet : D = c \div 1000 /\ N = c % 1000
        /\ D = (IF kind = "velocity3d" THEN 3 ELSE 2)
        /\ kmode \in 1..MaxMode /\ (2 * kmode < N \/ (kind = "vorticity2d" /\ 2 * kmode = N))
        /\ forcing = Forcing(kind, kmode)
        /\ n = 0 /\ acc = RZero

\* one ETDRK step of any order with the constant nonlinear term f:  coefficient of dt*f
Step == /\ n < MaxSteps
        /\ acc' = RAdd(RMul(RE2, acc), F1)
        /\ n' = n + 1
        /\ UNCHANGED <<kind, D, N, kmode, forcing>>
Next == Step

HermitianOK == \A c \in 1..Len(forcing) : FReal(forcing[c])
RepresentableOK == \A c \in 1..Len(forcing) : \A k \in DOMAIN forcing[c] : 2 * VMaxAbs(k) < N \/ (kind = "vorticity2d" /\ 2 * VMaxAbs(k) = N)
\* the forcing depends on x_1 only: it is invariant under shifts along every other axis
InvariantAxes == { d \in 1..D : \A c \in 1..Len(forcing) : \A k \in DOMAIN forcing[c] : k[d] = 0 }
ShiftAxesOK == InvariantAxes = (1..D) \ {2}
\* convection vanishes on the laminar profile (any amplitude): N(u) = f along the whole laminar solution
NoSelfInteraction == IF kind = "velocity3d"
                     THEN Leray(3, w, Rot3dRaw(w, forcing)) = <<FZero, FZero, FZero>>
                     ELSE Vort2d(w, <<3, 2>>, forcing) = <<FZero>>
\* closed form of the laminar solution after n steps:  (E^(2n) - 1)/z
LaminarOK == acc = (IF n = 0 THEN RZero ELSE RAdd(RMono(QOne, 2 * n, -1), RMono(QInt(-1), 0, -1)))
=============================================================================
