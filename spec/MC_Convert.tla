---------------------------- MODULE MC_Convert ----------------------------
(* The documented conversions between physical, normalized and difficulty parametrisations, as exact rational maps:
     alpha_j = a_j dt / L^j                     gamma_0 = alpha_0 ,  gamma_j = alpha_j N^j 2^(j-1) D   (j >= 1)
     beta_1  = b_1 dt / L                       delta_1 = beta_1 M N D
     beta_2  = b_2 dt / L^2                     delta_2 = beta_2 M N^2 D
     polynomial scales:  c_i dt                 (difficulty = normalized)
   One state per argument tuple; the actions walk the argument grid.  Normalize/denormalize and reduce/extract are mutual inverses. *)
EXTENDS Exact

CONSTANTS Nset, MaxOrder, Big
Ls    == IF Big THEN {<<1, 1>>, <<3, 1>>, <<5, 2>>, <<1, 3>>, <<63, 10>>} ELSE {<<1, 1>>, <<3, 1>>, <<5, 2>>}
Dts   == IF Big THEN {<<1, 10>>, <<1, 2>>, <<7, 1>>} ELSE {<<1, 10>>, <<1, 2>>}
Coefs == IF Big THEN {<<1, 4>>, <<-2, 3>>, <<3, 1>>, <<-1, 100>>} ELSE {<<1, 4>>, <<-2, 3>>, <<3, 1>>}
Ms    == {<<1, 1>>, <<3, 2>>}
VARIABLES j, a, L, dt, D, N, M, row
vars == <<j, a, L, dt, D, N, M, row>>

Normalize(jj, aa, LL, tt) == QDiv(QMul(aa, tt), QPow(LL, jj))
Denormalize(jj, al, LL, tt) == QMul(QDiv(al, tt), QPow(LL, jj))
Reduce(jj, al, dd, nn) == IF jj = 0 THEN al ELSE QMul(al, QInt(IPow(nn, jj) * IPow(2, jj - 1) * dd))
Extract(jj, ga, dd, nn) == IF jj = 0 THEN ga ELSE QDiv(ga, QInt(IPow(nn, jj) * IPow(2, jj - 1) * dd))
ReduceConv(be, dd, nn, mm) == QMul(be, QMul(mm, QInt(nn * dd)))
ExtractConv(de, dd, nn, mm) == QDiv(de, QMul(mm, QInt(nn * dd)))
ReduceGN(be, dd, nn, mm) == QMul(be, QMul(mm, QInt(nn * nn * dd)))
ExtractGN(de, dd, nn, mm) == QDiv(de, QMul(mm, QInt(nn * nn * dd)))

Row(jj, aa, LL, tt, dd, nn, mm) ==
    LET al == Normalize(jj, aa, LL, tt)
        b1 == Normalize(1, aa, LL, tt)
        b2 == Normalize(2, aa, LL, tt)
    IN  [ alpha |-> al, gamma |-> Reduce(jj, al, dd, nn),
          beta1 |-> b1, delta1 |-> ReduceConv(b1, dd, nn, mm),
          beta2 |-> b2, delta2 |-> ReduceGN(b2, dd, nn, mm),
          poly  |-> QMul(aa, tt) ]

Init == /\ j = 0 /\ a \in Coefs /\ L \in Ls /\ dt \in Dts /\ D \in 1..3 /\ N \in Nset /\ M \in Ms
        /\ row = Row(j, a, L, dt, D, N, M)
NextOrder == /\ j < MaxOrder /\ j' = j + 1 /\ UNCHANGED <<a, L, dt, D, N, M>>
             /\ row' = Row(j', a, L, dt, D, N, M)
Next == NextOrder

InverseOK == /\ Denormalize(j, row.alpha, L, dt) = a
             /\ Extract(j, row.gamma, D, N) = row.alpha
             /\ ExtractConv(row.delta1, D, N, M) = row.beta1
             /\ ExtractGN(row.delta2, D, N, M) = row.beta2
             /\ QDiv(row.poly, dt) = a
\* the difficulty of order j is the normalized coefficient times the dimension-weighted Nyquist scale; order 0 passes through
FormulaOK == /\ (j = 0 => row.gamma = row.alpha)
             /\ (j = 1 => row.gamma = QMul(row.alpha, QInt(N * D)))
             /\ (j = 2 => row.gamma = QMul(row.alpha, QInt(2 * N * N * D)))
             /\ row.delta1 = QMul(QMul(row.beta1, M), QInt(N * D))
=============================================================================
