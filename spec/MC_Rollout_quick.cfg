SPECIFICATION Spec
CONSTANTS
  MaxN = 4
  MaxT = 5
INVARIANT CarryOK
INVARIANT RolloutOK
INVARIANT RepeatOK
INVARIANT WindowsOK
INVARIANT AuxOrderOK
PROPERTY Termination
CHECK_DEADLOCK FALSE
