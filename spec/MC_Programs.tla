---------------------------- MODULE MC_Programs ----------------------------
(* Program shapes for C06: a stepper composed with jit, vmap over states, vmap over constructor parameters, rollout / repeat.
   A program is a record
       [jit_in, jit_out : BOOLEAN, loop : {"none","rollout","repeat"}, n, init, vm : {"none","inner","outer"}, vp : BOOLEAN, B]
   vm = "inner": the stepper is mapped over the batch and the mapped stepper is rolled out (lanes advance in lock-step, StepAll);
   vm = "outer": the rollout of the single stepper is mapped over the batch (lanes advance independently, StepLane - TLC explores
                 every interleaving);
   vp: each lane has its own stepper, built from its own constructor parameters.
   The stepper is the injective integer bookkeeping map  f_b(u) = a_b u + c_b,  so lane identity, parameter identity, the number of
   applications and the axis order are all visible in the values.  The machine fills the table M[b][t] the way the program executes and
   assembles the output; the invariants compare it with the closed form  f_b^t(u_b). *)
EXTENDS Integers, Sequences, FiniteSets, TLC

CONSTANTS MaxN, MaxB, MaxHist
VARIABLES prog, M, pc, out
vars == <<prog, M, pc, out>>

Progs == [jit_in : BOOLEAN, jit_out : BOOLEAN, loop : {"none", "rollout", "repeat"}, n : 0..MaxN, init : BOOLEAN,
          vm : {"none", "inner", "outer"}, vp : BOOLEAN, B : 1..MaxB]
Canonical(p) ==
    /\ (p.loop = "none") => (p.n = 1 /\ ~p.init /\ p.vm # "inner" /\ ~p.jit_in)
    /\ (p.loop = "repeat") => ~p.init
    /\ (p.vm = "none") => (p.B = 1 /\ ~p.vp)
    /\ (p.vm # "none") => p.B >= 2
    /\ (p.loop = "rollout" /\ ~p.init) => p.n >= 1                \* empty trajectories are C14's business

\* lane inputs and per-lane stepper parameters
U0(b) == 10 * b + 1
Amul(p, b) == IF p.vp THEN b + 1 ELSE 2
Cadd(p, b) == IF p.vp THEN 3 * b + 1 ELSE 1
F(p, b, u) == Amul(p, b) * u + Cadd(p, b)
RECURSIVE Iter(_, _, _, _)
Iter(p, b, t, u) == IF t = 0 THEN u ELSE F(p, b, Iter(p, b, t - 1, u))

Init == /\ prog \in Progs /\ Canonical(prog)
        /\ M = [b \in 1..prog.B |-> <<U0(b)>>]
        /\ pc = "run" /\ out = << >>

Steps(b) == Len(M[b]) - 1
Advance(b) == Append(M[b], F(prog, b, M[b][Len(M[b])]))
\* rollout of the single stepper mapped over the batch (or no batch): lanes are independent executions
StepLane(b) == /\ pc = "run" /\ prog.vm # "inner" /\ Steps(b) < prog.n
               /\ M' = [M EXCEPT ![b] = Advance(b)]
               /\ UNCHANGED <<prog, pc, out>>
\* the mapped stepper rolled out: one scan step advances every lane
StepAll == /\ pc = "run" /\ prog.vm = "inner" /\ Steps(1) < prog.n
           /\ M' = [b \in 1..prog.B |-> Advance(b)]
           /\ UNCHANGED <<prog, pc, out>>
TimesOf(p) == IF p.loop = "rollout" THEN (IF p.init THEN 0 ELSE 1)..p.n ELSE {p.n}
Times == TimesOf(prog)
TimeSeqOf(p) == [i \in 1..Cardinality(TimesOf(p)) |-> i - 1 + (IF p.loop = "rollout" /\ p.init THEN 0 ELSE IF p.loop = "rollout" THEN 1 ELSE p.n)]
AssembleP(p, val(_, _)) ==
    LET lanes == 1..p.B
        ts == TimeSeqOf(p)
        perLane(b) == IF p.loop = "rollout" THEN [i \in DOMAIN ts |-> val(b, ts[i])] ELSE val(b, p.n)
    IN  IF p.vm = "none" THEN perLane(1)
        ELSE IF p.vm = "outer" \/ p.loop # "rollout" THEN [b \in lanes |-> perLane(b)]
        ELSE [i \in DOMAIN ts |-> [b \in lanes |-> val(b, ts[i])]]
Assemble(val(_, _)) == AssembleP(prog, val)
Emit == /\ pc = "run" /\ \A b \in 1..prog.B : Steps(b) = prog.n
        /\ out' = Assemble(LAMBDA b, t : M[b][t + 1])
        /\ pc' = "done" /\ UNCHANGED <<prog, M>>
AnyLane == \E b \in 1..prog.B : StepLane(b)
Next == AnyLane \/ StepAll \/ Emit
Spec == Init /\ [][Next]_vars /\ WF_vars(Next)

\* ---------------------------------------------------------------- properties
Closed(b, t) == Iter(prog, b, t, U0(b))
\* each batch member's result depends only on that member (its own input, its own parameters), whatever the interleaving
ProvenanceOK == \A b \in 1..prog.B : \A i \in 1..Len(M[b]) : M[b][i] = Closed(b, i - 1)
\* the assembled output is the closed form with the documented axis order; jit flags do not enter
OutputOK == (pc = "done") => out = Assemble(Closed)
\* output layout
ShapeOK == (pc = "done") =>
    LET T == Cardinality(Times) IN
    IF prog.loop = "rollout"
    THEN IF prog.vm = "none" THEN Len(out) = T
         ELSE IF prog.vm = "outer" THEN Len(out) = prog.B /\ \A b \in 1..prog.B : Len(out[b]) = T
         ELSE Len(out) = T /\ \A i \in 1..T : Len(out[i]) = prog.B
    ELSE (prog.vm # "none") => Len(out) = prog.B
\* mapping a rollout = rolling out the mapped stepper with batch and time axes exchanged
Swap(p) == [p EXCEPT !.vm = IF p.vm = "inner" THEN "outer" ELSE "inner"]
TransposeOK == (pc = "done" /\ prog.loop = "rollout" /\ prog.vm # "none") =>
    LET other == AssembleP(Swap(prog), Closed)
        T == Cardinality(Times)
    IN  \A b \in 1..prog.B : \A i \in 1..T :
            IF prog.vm = "outer" THEN other[i][b] = out[b][i] ELSE other[b][i] = out[i][b]
\* repeat = last state of the rollout
RepeatOK == (pc = "done" /\ prog.loop = "repeat") =>
    LET roll == AssembleP([prog EXCEPT !.loop = "rollout", !.init = TRUE], Closed)
    IN  IF prog.vm = "none" THEN out = roll[prog.n + 1]
        ELSE \A b \in 1..prog.B : out[b] = (IF prog.vm = "outer" THEN roll[b][prog.n + 1] ELSE roll[prog.n + 1][b])
\* ---------------------------------------------------------------- construction histories
\* Building a stepper is a pure function of its arguments: the result of a call does not depend on which constructions (eager, under jit,
\* under vmap, under jit(vmap)) happened before in the same process, nor on their order.  The histories below are replayed on grid sizes
\* no other construction has touched, so that any process-wide state (caches, globals) is cold at the start of each history.
BuildModes == {"eager", "jit", "vmap", "jitvmap"}
Histories == UNION { [1..m -> BuildModes] : m \in 1..MaxHist }
\* abstract semantics of a history: every construction yields the same stepper, so every call yields F applied to the same input
HistValue(h, i) == F([vp |-> FALSE], 1, U0(1))
ASSUME \A h \in Histories : \A i \in DOMAIN h : HistValue(h, i) = HistValue(h, 1)
ASSUME PrintT(<<"histories", Histories>>)
=============================================================================
