---------------------------- MODULE Trace_ETDRK ----------------------------
(* Trace specification for the ETDRK stage machine.  One trace = one real step_fourier call of order p, observed at the
   nonlinear-function boundary:
     Begin                      the step starts
     EvalN (j, in_ulps)         the j-th evaluation of the nonlinear term; in_ulps = distance (in units of rounding) between
                                the argument it received and the stage value the tableau predicts from u and the earlier,
                                recorded, outputs N_0..N_{j-2}
     End (out_ulps)             the step returned; distance between the result and the tableau's final combination
   FormStage is not observable and is taken silently.  Accepts iff exactly p evaluations happen, in order, each at the predicted
   argument, and the result is the predicted combination. *)
EXTENDS MC_ETDRK, Json, IOUtils

CONSTANT MaxUlps
Traces == JsonDeserialize(IOEnv.TRACE_FILE)
VARIABLES tid, l
tvars == <<p, mode, pc, j, vals, nvals, tid, l>>
Ev == Traces[tid].events
IsEvent(name) == l <= Len(Ev) /\ Ev[l].ev = name /\ l' = l + 1 /\ UNCHANGED tid

TInit == /\ tid \in 1..Len(Traces) /\ l = 1
         /\ p = Traces[tid].p /\ mode = "sym"
         /\ pc = "begin" /\ j = 0 /\ vals = << >> /\ nvals = << >>

TBegin == IsEvent("Begin") /\ Begin
TEvalN == /\ IsEvent("EvalN")
          /\ Ev[l].j = j
          /\ Ev[l].in_ulps <= MaxUlps
          /\ EvalN
TForm  == FormStage /\ UNCHANGED <<tid, l>>
TEnd   == /\ IsEvent("End")
          /\ pc = "done"
          /\ Ev[l].out_ulps <= MaxUlps
          /\ UNCHANGED <<p, mode, pc, j, vals, nvals>>
TNext == TBegin \/ TEvalN \/ TForm \/ TEnd
TSpec == TInit /\ [][TNext]_tvars
TInv == CountOK /\ ExplicitOK
=============================================================================
