---------------------------- MODULE MC_Linear ----------------------------
(* Linear steppers: one state per (class, mixing flag, D, N, stored index) carrying the symbol's term list, plus a
   time counter t (in units of dt) driven by the actions Step / StepBack / StepN: by exponent additivity
   (EXP[a] EXP[b] = EXP[a+b]) the state of mode k after the actions is  EXP[t * dt * lambda(k)] * u0(k).
   Decides the symbol-level parts of C01, C05 (operators), C11 (sign of the real part). *)
EXTENDS Symbols

CONSTANTS DNSet, MaxJ, MaxT
VARIABLES cls, mix, D, N, s, terms, t, hist
vars == <<cls, mix, D, N, s, terms, t, hist>>

k == K(D, N, s)
T(c, m, d, n, idx) == Terms(c, m, d, K(d, n, idx), MaxJ)

Init == /\ \E c \in DNSet : D = c \div 1000 /\ N = c % 1000
        /\ cls \in Classes \cup SemiClasses
        /\ mix \in Variants(cls)
        /\ s = VZero(D)
        /\ terms = T(cls, mix, D, N, s)
        /\ t = 0
        /\ hist = << >>

Walk(a) == /\ t = 0 /\ hist = << >>
           /\ s[a] + 1 < AxisLen(D, N, a)
           /\ s' = Tup(D, LAMBDA d : IF d = a THEN s[d] + 1 ELSE s[d])
           /\ terms' = T(cls, mix, D, N, s')
           /\ UNCHANGED <<cls, mix, D, N, t, hist>>

\* time stepping on the mode at the origin of the walk only (the counter is the same for every mode)
Step     == /\ s = VZero(D) /\ cls \in Classes /\ Len(hist) < MaxT /\ t' = t + 1 /\ hist' = Append(hist, <<"Step", 1>>)
            /\ UNCHANGED <<cls, mix, D, N, s, terms>>
\* a call with -dt undoes a call with dt: claimed (and replayed) for the non-dissipative equations only
Reversible(c) == c \in {"Advection", "Dispersion", "Wave"}
StepBack == /\ s = VZero(D) /\ Reversible(cls) /\ Len(hist) < MaxT /\ t' = t - 1 /\ hist' = Append(hist, <<"StepBack", -1>>)
            /\ UNCHANGED <<cls, mix, D, N, s, terms>>
StepN(n) == /\ s = VZero(D) /\ cls \in Classes /\ Len(hist) < MaxT /\ t' = t + n /\ hist' = Append(hist, <<"StepN", n>>)
            /\ UNCHANGED <<cls, mix, D, N, s, terms>>

Next == (\E a \in 1..D : Walk(a)) \/ Step \/ StepBack \/ (\E n \in {2, 3} : StepN(n))

\* ------------------------------------------------------------------ properties of the symbols
\* real fields stay real: lambda(-k) = conj lambda(k) term by term (parameters are real)
MinusK == VNeg(k)
HermitianOK == \A tm \in terms :
                 \E tn \in Terms(cls, mix, D, MinusK, MaxJ) : tn.c = tm.c /\ tn.w = tm.w /\ tn.m = CConj(tm.m)
\* the mean is untouched by every class except through the zeroth-order generic coefficient, which enters as D * a_0
MeanOK == (VSq(k) = 0) => \A tm \in terms : IF tm.w = 0 THEN (cls = "GeneralLinear" => tm.m = CInt(D)) ELSE CIsZero(tm.m)
\* every term of order j carries w^j and a homogeneous polynomial of degree j in k (dimensional consistency)
OrderOK == \A tm \in terms : tm.w \in 0..MaxJ
\* non-dissipative classes: purely imaginary symbol at every index (|multiplier| = 1, a step with -dt undoes a step)
ReversibleOK == (cls \in {"Advection", "Dispersion"}) => PureImag(terms)
\* dissipative classes: real symbol; hyper-diffusion strictly negative away from k = 0 for positive zeta;
\* diffusion: -k^T A k, negative semidefinite for the SPD instances below
DissipativeOK == /\ (cls \in {"Diffusion", "HyperDiffusion"}) => PureReal(terms)
                 /\ (cls = "HyperDiffusion" /\ VSq(k) # 0) => \A tm \in terms : QSign(tm.m.re) < 0
SPD == { <<2, 1, 1>>, <<1, 0, 3>>, <<5, -2, 1>>, <<1, 1, 1>> }      \* (a11, a12 = a21, a22), all PSD; used on the first two axes
DiffusionPSD == (cls = "Diffusion" /\ D >= 2) =>
                  \A A \in SPD : A[1] * k[1] * k[1] + 2 * A[2] * k[1] * k[2] + A[3] * k[2] * k[2] >= 0
\* inclusion relations between the classes (documented equivalences), at rational parameters
Par1(c) == IF c[1] = "velocity" THEN <<3, 2>> ELSE IF c[1] = "diffusivity" THEN (IF c[2] = c[3] THEN <<1, 5>> ELSE QZero)
           ELSE IF c[1] = "a" THEN (IF c[2] = 1 THEN <<-3, 2>> ELSE IF c[2] = 2 THEN <<1, 5>> ELSE QZero) ELSE QOne
InclusionOK == (cls = "AdvectionDiffusion") =>
                  EvalTerms(terms, Par1, <<1, 2>>) = EvalTerms(GeneralLinearTerms(D, k, MaxJ), Par1, <<1, 2>>)
\* the two spatial-mixing variants coincide in 1D
Mix1dOK == (D = 1 /\ cls \in {"Dispersion", "HyperDiffusion", "KortewegDeVries"}) =>
               \A v \in Variants(cls) : Terms(cls, v, D, k, MaxJ) = terms
\* every semi-linear class with an even-order-only linear part has a real symbol (ETDRK coefficients real)
SemiRealOK == (cls \in SemiClasses \ {"KortewegDeVries"}) => PureReal(terms)

\* C13: every specific class has the same symbol as the generic linear family with the documented coefficient list
\* (isotropic scalar parameters, no spatial mixing; the zeroth-order generic coefficient enters as D * a_0)
PV(name) == CASE name = "velocity" -> <<3, 2>> [] name = "diffusivity" -> <<1, 5>> [] name = "dispersivity" -> <<3, 7>>
              [] name = "hyper_diffusivity" -> <<1, 11>> [] name = "second_order_scale" -> <<2, 3>> [] name = "fourth_order_scale" -> <<1, 7>>
              [] name = "drag" -> <<-1, 3>> [] name = "reactivity" -> <<5, 4>> [] name = "first_order_coefficient" -> <<3, 4>>
              [] name = "critical_number" -> <<1, 2>> [] name = "critical_number*critical_number" -> <<1, 4>> [] name = "one" -> QOne
              [] name = "diffusivity*first_order_coefficient" -> <<3, 20>> [] name = "diffusivity*gamma" -> <<1, 35>>
              [] name = "diffusivity_1" -> <<1, 5>> [] name = "diffusivity_2" -> <<1, 9>>
ParSpecific(c) == IF c[1] = "diffusivity" /\ c[2] # c[3] THEN QZero ELSE PV(c[1])       \* isotropic: A = nu * Id
QD == QInt(D)
EquivList(c) ==
    CASE c = "Advection"          -> << QZero, QNeg(PV("velocity")) >>
      [] c = "Diffusion"          -> << QZero, QZero, PV("diffusivity") >>
      [] c = "AdvectionDiffusion" -> << QZero, QNeg(PV("velocity")), PV("diffusivity") >>
      [] c = "Dispersion"         -> << QZero, QZero, QZero, PV("dispersivity") >>
      [] c = "HyperDiffusion"     -> << QZero, QZero, QZero, QZero, QNeg(PV("hyper_diffusivity")) >>
      [] c = "Burgers"            -> << QZero, QZero, PV("diffusivity") >>
      [] c = "KortewegDeVries"    -> << QZero, QZero, PV("diffusivity"), QNeg(PV("dispersivity")), QNeg(PV("hyper_diffusivity")) >>
      [] c \in {"KuramotoSivashinsky", "KuramotoSivashinskyConservative"}
                                  -> << QZero, QZero, QNeg(PV("second_order_scale")), QZero, QNeg(PV("fourth_order_scale")) >>
      [] c = "NavierStokes"       -> << QDiv(PV("drag"), QD), QZero, PV("diffusivity") >>
      [] c = "FisherKPP"          -> << QDiv(PV("reactivity"), QD), QZero, PV("diffusivity") >>
      [] c = "AllenCahn"          -> << QDiv(PV("first_order_coefficient"), QD), QZero, PV("diffusivity") >>
      [] c = "SwiftHohenberg"     -> << QSub(PV("reactivity"), PV("critical_number*critical_number")), QZero,
                                        QMul(QInt(-2), PV("critical_number")), QZero, QInt(-1) >>
HasEquiv(c, v, d) == /\ c \in {"Advection", "Diffusion", "AdvectionDiffusion", "Dispersion", "HyperDiffusion", "Burgers", "KortewegDeVries",
                                 "KuramotoSivashinsky", "KuramotoSivashinskyConservative", "NavierStokes", "FisherKPP", "AllenCahn", "SwiftHohenberg"}
                     /\ v = 0 /\ (c = "SwiftHohenberg" => d = 1)
ParGeneric(lst) == [c \in {<<"a", j, 0>> : j \in 0..MaxJ} |-> IF c[2] + 1 <= Len(lst) THEN lst[c[2] + 1] ELSE QZero]
EquivOK == HasEquiv(cls, mix, D) =>
    \A ww \in {<<1, 1>>, <<2, 3>>} :
        EvalTerms(terms, ParSpecific, ww) =
        EvalTerms(GeneralLinearTerms(D, k, MaxJ), LAMBDA c : ParGeneric(EquivList(cls))[c], ww)
\* C13: only the non-dimensional groups dt * a_j * w^j matter: (L, dt, a_j) -> (s L, t dt, a_j s^j / t) leaves dt * lambda unchanged
GroupOK == (cls = "GeneralLinear") =>
    LET a(c) == <<c[2] + 1, c[2] + 2>>                       \* some rational coefficient per order
        sL == <<2, 1>>
        sT == <<3, 1>>
        a2(c) == QDiv(QMul(a(c), QPow(sL, c[2])), sT)
    IN  CScale(<<1, 10>>, EvalTerms(terms, a, <<2, 3>>)) = CScale(QMul(sT, <<1, 10>>), EvalTerms(terms, a2, QDiv(<<2, 3>>, sL)))
\* generic family: odd-order terms are purely imaginary (norm preserving), even-order terms purely real, at every index
ParityOK == (cls \in {"GeneralLinear", "Derivative"}) =>
    \A tm \in terms : IF tm.w % 2 = 1 THEN QIsZero(tm.m.re) ELSE QIsZero(tm.m.im)
\* C05: derivatives compose, (d/dx_d)^a (d/dx_d)^b = (d/dx_d)^(a+b), and the Poisson solver inverts the Laplacian of order 2 / 4
\* on every non-constant mode: (-1/sym) * sym = -1, with sym = Sum_d (i k_d)^o never zero away from k = 0
DerivativeOK == (cls = "Derivative") =>
    /\ \A d \in 1..D : \A a \in 1..(MaxJ - 1) : \A b \in 1..(MaxJ - a) : CMul(IkPow(k, d, a), IkPow(k, d, b)) = IkPow(k, d, a + b)
    /\ \A o \in {2, 4} : LET sym == SumD(D, LAMBDA d : IkPow(k, d, o))
                         IN  IF VSq(k) = 0 THEN CIsZero(sym)
                             ELSE ~CIsZero(sym) /\ QIsZero(sym.im) /\ CMul(CNeg(CReal(QInv(sym.re))), sym) = CInt(-1)      \* real symbol: inverse without squaring (32-bit)
\* ------------------------------------------------------------------ properties of the time counter
\* n calls with dt = one call with n*dt ; a call with -dt undoes a call with dt
RECURSIVE SumHist(_)
SumHist(h) == IF h = << >> THEN 0
              ELSE h[Len(h)][2] + SumHist(SubSeq(h, 1, Len(h) - 1))
SemigroupOK == t = SumHist(hist)
=============================================================================
