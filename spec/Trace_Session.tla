---------------------------- MODULE Trace_Session ----------------------------
(* Code -> specification for the composed machine: sessions of public API calls chosen by a driver (not by TLC) are executed by the
   library; after every call the driver logs the call, its arguments and the state the LIBRARY returned (the canonical two-sided spectrum of
   the returned array, every coefficient rationalised - or the value of an observation).  This module replays the log through the
   functions of Session.tla: an event is consumed iff the machine's exact successor state equals the logged one.  The driver's
   alphabet is wider than the families TLC simulates (any mode, any shift vector, any cutoff, any query point, Runge-Kutta orders 3
   and 4, any new grid size), which is why the trace actions use the machine's functions with the logged arguments instead of the
   bounded choices of Session.Next.  Many sessions are validated in one run: an `init` event sets the state.
   An event whose returned coefficients could not be rationalised (denominator above the driver's bound) carries unrat = TRUE and no
   state: it is consumed iff the machine's own successor indeed has such a denominator (otherwise the library returned something
   else than the machine predicts); the driver ends the session there.
   A trace is accepted iff every line is consumed (the harness compares TLC's depth with the number of events). *)
EXTENDS Session, Json, IOUtils

Trace == ndJsonDeserialize(IOEnv.TRACE_FILE)
VARIABLE l
tvars == <<vars, l>>

MaxDen == 20000
QOf(x) == <<x[1], x[2]>>
FromLog(ch) == IF Len(ch) = 0 THEN FZero
               ELSE [p \in {ch[i][1] : i \in DOMAIN ch} |-> LET e == ch[CHOOSE i \in DOMAIN ch : ch[i][1] = p] IN Cx(<<e[2], e[3]>>, <<e[4], e[5]>>)]
LoggedSt(e) == [c \in 1..Len(e.st) |-> FromLog(e.st[c])]
BigDen(U) == \E c \in 1..Len(U) : \E p \in DOMAIN U[c] : U[c][p].re[2] > MaxDen \/ U[c][p].im[2] > MaxDen

\* the machine's successor for a state-changing call (the grid size changes for "resample" only)
Expect(e) ==
    CASE e.op = "derive"   -> MapCh(LAMBDA c : DeriveF(c, e.d, e.m))
      [] e.op = "filter"   -> MapCh(LAMBDA c : FilterF(c, e.cut))
      [] e.op = "apply"    -> NOf(e.term, st)
      [] e.op = "rk"       -> RKF(e.term, e.p, st)
      [] e.op = "leray"    -> Leray(D, w, st)
      [] e.op = "incomp"   -> Leray(D, w, st)
      [] e.op = "poisson"  -> MapCh(LAMBDA c : PoissonF(c, e.o))
      [] e.op = "oddball"  -> MapCh(OddballF)
      [] e.op = "addmode"  -> [c \in 1..Len(st) |-> IF c = e.ch THEN FAdd(st[c], BasisOn(D, N, e.p, e.trig)) ELSE st[c]]
      [] e.op = "advect"   -> MapCh(LAMBDA c : AdvectF(c, e.v))
      [] e.op = "advectn"  -> MapCh(LAMBDA c : IF e.how = "substeps" THEN AdvectSub(c, e.v, e.n) ELSE AdvectRep(c, e.v, e.n))
      [] e.op = "forced"   -> MapCh(LAMBDA c : AdvectF(FAdd(c, FScale(CReal(DtA), BasisOn(D, N, e.p, e.trig))), e.v))
      [] e.op = "resample" -> [c \in 1..Len(st) |-> ResampleF(st[c], e.M)]
Changing == {"derive", "filter", "apply", "rk", "leray", "incomp", "poisson", "oddball", "addmode", "advect", "advectn", "forced", "resample"}
\* the guards of Session's actions
Guard(e) ==
    CASE e.op \in {"leray", "incomp"} -> IsVec /\ NyqFree
      [] e.op = "derive"   -> ~IsVec /\ e.d \in 1..D /\ e.m >= 1
      [] e.op = "apply"    -> e.term \in Terms
      [] e.op = "rk"       -> e.term \in Terms /\ e.p \in 1..4
      [] e.op = "oddball"  -> N % 2 = 0
      [] e.op = "interp"   -> NyqFree \/ N % 4 = 0
      [] e.op = "resample" -> e.M >= 3
      [] e.op = "poisson"  -> e.o \in {2, 4}
      [] OTHER -> TRUE
\* the label kept for the invariants of Session (those that need only the operation and its argument)
Label(e) == IF e.op \in {"apply", "filter", "leray", "oddball", "derive"} THEN e ELSE [op |-> "traced"]

\* observations: the logged value against the machine's
SeqQEq(logged, want) == Len(logged) = Len(want) /\ \A i \in DOMAIN want : QOf(logged[i]) = want[i]
ObsOK(e) ==
    CASE e.op = "interp"   -> \A c \in 1..Len(st) : LET z == InterpAt(st[c], e.q) IN QIsZero(z.im) /\ z.re = QOf(e.val[c])
      [] e.op = "spectrum" -> \A c \in 1..Len(st) : SeqQEq(e.val[c], SpecOf(st[c]))
      [] e.op = "metric"   -> /\ MeanSq(st) = QOf(e.mse) /\ BandSq(st, e.lo, e.hi) = QOf(e.band) /\ GradSq(st) = QOf(e.grad)
      [] e.op = "coefs"    -> \A c \in 1..Len(st) : FromLog(e.val[c]) = CoefOf(st[c])          \* keyed by the stored index instead of the wavenumber

\* an observation the driver could not rationalise: the machine's own value must have a denominator above the driver's bound
BigQ(q) == q[2] > MaxDen
ObsBig(e) ==
    CASE e.op = "interp"   -> \E c \in 1..Len(st) : BigQ(InterpAt(st[c], e.q).re)
      [] e.op = "spectrum" -> \E c \in 1..Len(st) : \E b \in DOMAIN SpecOf(st[c]) : BigQ(SpecOf(st[c])[b])
      [] e.op = "metric"   -> BigQ(MeanSq(st)) \/ BigQ(BandSq(st, e.lo, e.hi)) \/ BigQ(GradSq(st))
      [] e.op = "coefs"    -> BigDen([c \in 1..Len(st) |-> CoefOf(st[c])])

TInit == /\ l = 1 /\ D = 1 /\ N = 3 /\ st = <<FZero>> /\ last = [op |-> "none"] /\ nl = 0 /\ len = 0 /\ fam = "none"
StartSession == LET e == Trace[l] IN
    /\ e.op = "init"
    /\ D' = e.D /\ N' = e.N /\ st' = LoggedSt(e) /\ last' = [op |-> "init"] /\ nl' = 0 /\ len' = 0 /\ fam' = "none"
Call == LET e == Trace[l] IN
    /\ e.op \in Changing /\ Guard(e)
    /\ LET x == Expect(e) IN
          /\ IF e.unrat THEN BigDen(x) /\ st' = x ELSE st' = x /\ x = LoggedSt(e)
          /\ N' = (IF e.op = "resample" THEN e.M ELSE N)
    /\ last' = Label(e) /\ len' = len + 1 /\ UNCHANGED <<D, nl, fam>>
Look == LET e == Trace[l] IN
    /\ e.op \in {"interp", "spectrum", "metric", "coefs"} /\ Guard(e) /\ (IF e.unrat THEN ObsBig(e) ELSE ObsOK(e))
    /\ last' = [op |-> "traced"] /\ len' = len + 1 /\ UNCHANGED <<D, N, st, nl, fam>>
TNext == l <= Len(Trace) /\ l' = l + 1 /\ (StartSession \/ Call \/ Look)
TSpec == TInit /\ [][TNext]_tvars
=============================================================================
