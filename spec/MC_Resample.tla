---------------------------- MODULE MC_Resample ----------------------------
(* Resolution changes and Fourier interpolation.
   map_between_resolutions as the code does it, step by step:
       Scale (divide by N^D)  ->  ZeroOddballOld (up-sampling from an even grid)  ->  CopyBlock(b) for each of the 2^(D-1) mode blocks of
       min(N, M)  ->  Rescale (multiply by M^D)  ->  ZeroOddballNew (down-sampling to an even grid)
   on the exact half-spectrum of a real basis function (any integer wavenumber of the old grid, Nyquist included).
   The interpolant is  Re Sum_s u^(s)/recon(s) exp(i w K(s).x), a trigonometric polynomial stated as a two-sided spectrum. *)
EXTENDS Layout

CONSTANTS PairSet          \* configurations encoded as 1000000*D + 1000*N + M
VARIABLES D, N, M, kappa, trig, pc, blk, h, hnew
vars == <<D, N, M, kappa, trig, pc, blk, h, hnew>>

Lo(n) == -(n \div 2)
Hi(n) == (n - 1) \div 2
nmin == Min2(N, M)
HScale(q, f) == [s \in DOMAIN f |-> CScale(q, f[s])]
HFilter(f, keep(_)) == [s \in {t \in DOMAIN f : keep(t)} |-> f[s]]
\* blocks: one choice left(0)/right(1) per leading axis, numbered 0 .. 2^(D-1)-1
NBlocks == IPow(2, D - 1)
Side(b, d) == (b \div IPow(2, d - 1)) % 2
InBlock(b, s) == /\ s[D] <= nmin \div 2
                 /\ \A d \in 1..(D-1) : IF Side(b, d) = 0 THEN s[d] \in LeftRange(nmin) ELSE s[d] \in RightRange(N, nmin)

Init == /\ \E c \in PairSet : D = c \div 1000000 /\ N = (c \div 1000) % 1000 /\ M = c % 1000
        /\ kappa = Tup(D, LAMBDA d : Lo(N)) /\ trig = "cos"
        /\ pc = "input" /\ blk = 0
        /\ h = HalfOf(D, N, BasisTS(kappa, trig)) /\ hnew = << >>

NextMode(a) == /\ pc = "input" /\ kappa[a] < Hi(N)
               /\ kappa' = Tup(D, LAMBDA d : IF d = a THEN kappa[d] + 1 ELSE kappa[d])
               /\ h' = HalfOf(D, N, BasisTS(kappa', trig))
               /\ UNCHANGED <<D, N, M, trig, pc, blk, hnew>>
Toggle == /\ pc = "input" /\ trig = "cos" /\ trig' = "sin"
          /\ h' = HalfOf(D, N, BasisTS(kappa, "sin"))
          /\ UNCHANGED <<D, N, M, kappa, pc, blk, hnew>>

Scale == /\ pc = "input" /\ N # M
         /\ h' = HScale(<<1, IPow(N, D)>>, h) /\ pc' = "scaled"
         /\ UNCHANGED <<D, N, M, kappa, trig, blk, hnew>>
ZeroOddballOld == /\ pc = "scaled"
                  /\ h' = IF M > N /\ N % 2 = 0 THEN HFilter(h, LAMBDA s : Oddball(D, N, s)) ELSE h
                  /\ pc' = "copy"
                  /\ UNCHANGED <<D, N, M, kappa, trig, blk, hnew>>
CopyBlock == /\ pc = "copy" /\ blk < NBlocks
             /\ LET src == { s \in DOMAIN h : InBlock(blk, s) }
                    tgt(s) == BlockMap(D, N, M, nmin, s)
                    new == [t \in { tgt(s) : s \in src } |-> h[CHOOSE s \in src : tgt(s) = t]]
                IN  hnew' = new @@ hnew            \* .at[block].set(...): later blocks overwrite earlier ones
             /\ blk' = blk + 1
             /\ UNCHANGED <<D, N, M, kappa, trig, pc, h>>
Rescale == /\ pc = "copy" /\ blk = NBlocks
           /\ hnew' = HScale(QInt(IPow(M, D)), hnew) /\ pc' = "rescaled"
           /\ UNCHANGED <<D, N, M, kappa, trig, blk, h>>
ZeroOddballNew == /\ pc = "rescaled"
                  /\ hnew' = IF N > M /\ M % 2 = 0 THEN HFilter(hnew, LAMBDA s : Oddball(D, M, s)) ELSE hnew
                  /\ pc' = "done"
                  /\ UNCHANGED <<D, N, M, kappa, trig, blk, h>>
Next == (\E a \in 1..D : NextMode(a)) \/ Toggle \/ Scale \/ ZeroOddballOld \/ CopyBlock \/ Rescale \/ ZeroOddballNew

\* ---------------------------------------------------------------- properties (resampling)
Representable(n) == \A d \in 1..D : 2 * Abs(kappa[d]) < n          \* strictly below the Nyquist mode of a grid with n points
h0 == HalfOf(D, N, BasisTS(kappa, trig))
\* every copied entry lands on an index of the new layout that carries the same wavenumber
KeepsWavenumber == (pc \in {"copy", "rescaled", "done"}) =>
    \A t \in DOMAIN hnew : t \in Idx(D, M) /\ \E s \in DOMAIN h0 : K(D, N, s) = K(D, M, t)
\* the mean of any state is preserved (zero mode copied, with the right scale) in every parity combination
MeanPreserved == (pc = "done") =>
    LET z == VZero(D)
        a == IF z \in DOMAIN h0 THEN CScale(<<1, IPow(N, D)>>, h0[z]) ELSE CZero
        b == IF z \in DOMAIN hnew THEN CScale(<<1, IPow(M, D)>>, hnew[z]) ELSE CZero
    IN  a = b
\* a mode that both grids resolve is mapped to the same function on the new grid; a mode the new grid cannot resolve
\* (or the Nyquist mode of an even old grid when up-sampling) is removed
ExactOrRemoved == (pc = "done") =>
    IF Representable(nmin) THEN hnew = HalfOf(D, M, BasisTS(kappa, trig))
    ELSE DOMAIN hnew = {}

\* ---------------------------------------------------------------- interpolation
\* two-sided spectrum (true wavenumbers, Nyquist entries as the layout names them) of the interpolant of the state with half-spectrum f
InterpTS(d, n, f) ==
    LET ND == IPow(n, d)
        parts(s) == LET c == CScale(Q(DenRecon(d, n, s), 2 * ND), f[s])      \* half of u^/recon
                    IN  (K(d, n, s) :> c) @@ (VNeg(K(d, n, s)) :> CConj(c))
        both(s) == IF VSq(K(d, n, s)) = 0 THEN (K(d, n, s) :> CReal(QMul(<<1, ND>>, f[s].re))) ELSE parts(s)
        Ks == UNION { DOMAIN both(s) : s \in DOMAIN f }
        val(k) == CSum({ s \in DOMAIN f : k \in DOMAIN both(s) }, LAMBDA s : both(s)[k])
    IN  [k \in { x \in Ks : ~CIsZero(val(x)) } |-> val(k)]
\* for Nyquist-free band-limited states the interpolant is the function itself, at every point of R^D
InterpExact == (pc = "input" /\ Representable(N)) => InterpTS(D, N, h) = TSPrune(BasisTS(kappa, trig))
\* for every state (Nyquist content included) the interpolant reproduces the state at its own grid points
InterpAtGrid == (pc = "input") =>
    LET it == InterpTS(D, N, h)
        wrapped == [k \in { VWrap(N, p) : p \in DOMAIN it } |-> CSum({ p \in DOMAIN it : VWrap(N, p) = k }, LAMBDA p : it[p])]
    IN  TSPrune(wrapped) = TwoSidedOf(D, N, h)
=============================================================================
