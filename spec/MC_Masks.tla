---------------------------- MODULE MC_Masks ----------------------------
(* The mask part of the layout tables alone (wavenumber vector, |k|_inf, |k|^2, Nyquist lines, radial bin) on grids that are too large for
   the full rows of MC_Layout: the spherical low-pass mask keeps the stored index s  <=>  cutoff^2 >= |k(s)|^2, an integer comparison,
   which is what has to hold for the modes lying exactly on the cutoff sphere (Pythagorean tuples such as (2,3,6), |k| = 7) too. *)
EXTENDS Layout, TLC

CONSTANTS DNSet        \* configurations encoded as 1000*D + N
VARIABLES D, N, s, row
vars == <<D, N, s, row>>

Row(d, n, t) == [ k |-> K(d, n, t), boxmin |-> VMaxAbs(K(d, n, t)), sqk |-> SqK(d, n, t), oddball |-> Oddball(d, n, t), nyq |-> HasNyq(d, n, t) ]
Init == /\ \E c \in DNSet : D = c \div 1000 /\ N = c % 1000
        /\ s = VZero(D) /\ row = Row(D, N, s)
StepAxis(a) == /\ s[a] + 1 < AxisLen(D, N, a)
               /\ s' = Tup(D, LAMBDA d : IF d = a THEN s[d] + 1 ELSE s[d])
               /\ row' = Row(D, N, s') /\ UNCHANGED <<D, N>>
Next == \E a \in 1..D : StepAxis(a)

\* the ball of radius c lies inside the box of half-width c and contains the box of half-width floor(c / sqrt D); masks are nested in c
IsqrtDiv(c, d) == CHOOSE m \in 0..c : d * m * m <= c * c /\ d * (m + 1) * (m + 1) > c * c
NestedOK == \A c \in 0..((N \div 2) + 1) :
               /\ LowPassBall(D, N, s, c) => LowPassBox(D, N, s, c)
               /\ LowPassBox(D, N, s, IsqrtDiv(c, D)) => LowPassBall(D, N, s, c)
               /\ LowPassBall(D, N, s, c) => LowPassBall(D, N, s, c + 1)
\* a mode lying exactly on a cutoff sphere is kept by that cutoff and by no smaller one
OnSphereOK == \A c \in 1..((N \div 2) + 1) : (row.sqk = c * c) => (LowPassBall(D, N, s, c) /\ ~LowPassBall(D, N, s, c - 1))
OddballOK == row.oddball <=> ~row.nyq
=============================================================================
