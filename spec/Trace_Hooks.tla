---------------------------- MODULE Trace_Hooks ----------------------------
(* Validates the remaining hook events recorded from ANY execution of the library (our drivers, the repository's own test-suite run
   with EXPONAX_VERIF=1) against the specification, one event per step:
     Dealias    (C03)  the number of modes a nonlinear function retains = (2 Cut + 1)^(D-1) (Cut + 1) with the documented cutoff
                       Cut = floor(fraction * (N div 2)) - 1  (Layout.DealiasCut); fraction arrives as a rational <<num, den>>
     Resample   (C15)  map_between_resolutions returns <<C, M, ..., M>> for an input <<C, N, ..., N>>
     Trajectory (C14)  rollout: every leaf of the trajectory has leading length n (+1 with include_init) and the structure of the
                       state; repeat: the structure of the state
     Windows    (C14)  stack_sub_trajectories: T - sub_len + 1 windows of length sub_len on every leaf; ValueError iff sub_len > T or the
                       leaves disagree on T
   A trace is accepted iff every line is consumed (the harness compares the depth with the number of events). *)
EXTENDS Layout, Json, IOUtils

Trace == ndJsonDeserialize(IOEnv.TRACE_FILE)
VARIABLES l, last
tvars == <<l, last>>

KeptCount(d, n, fn, fd) == LET c == DealiasCut(n, fn, fd) IN IF c < 0 THEN 0 ELSE IPow(2 * c + 1, d - 1) * (c + 1)
AllEq(sq, v) == \A i \in DOMAIN sq : sq[i] = v
Cube(c, m, d) == <<c>> \o [i \in 1..d |-> m]

DealiasOK(e) == e.kept = KeptCount(e.D, e.N, e.fraction[1], e.fraction[2])
ResampleOK(e) == /\ e.outcome = "returned"
                 /\ Len(e.shape) >= 2 /\ AllEq(SubSeq(e.shape, 2, Len(e.shape)), e.shape[2])
                 /\ e.out_shape = Cube(e.shape[1], e.new_num_points, Len(e.shape) - 1)
TrajectoryOK(e) == /\ e.outcome = "returned" /\ e.struct_same
                   /\ (e.op = "rollout") => AllEq(e.lead, e.n + (IF e.include_init THEN 1 ELSE 0))
\* leaves of unequal trajectory length, or a window longer than the trajectory, are rejected with ValueError (documented)
WindowsOK(e) == LET T == e.T[1] IN
                IF ~AllEq(e.T, T) \/ e.sub_len > T THEN e.outcome = "ValueError"
                ELSE /\ e.outcome = "returned"
                     /\ \A i \in DOMAIN e.out_lead : e.out_lead[i] = <<T - e.sub_len + 1, e.sub_len>>

TInit == l = 1 /\ last = "none"
Consume == /\ l <= Len(Trace)
           /\ LET e == Trace[l] IN
                 /\ CASE e.ev = "Dealias" -> DealiasOK(e)
                      [] e.ev = "Resample" -> ResampleOK(e)
                      [] e.ev = "Trajectory" -> TrajectoryOK(e)
                      [] e.ev = "Windows" -> WindowsOK(e)
                      [] OTHER -> FALSE
                 /\ last' = e.ev
           /\ l' = l + 1
TNext == Consume
TSpec == TInit /\ [][TNext]_tvars
=============================================================================
