---------------------------- MODULE MC_Dtype ----------------------------
(* C19: the dtype pipeline of one step and the image of the zero state.
   Part 1 - dtype lattice.  A step is   Canonicalise -> Fft -> (ExpMul | stages: NonlinIfft, NonlinProd, NonlinFft, CoefMul, Combine)* -> Ifft.
   JAX promotion on the four dtypes involved: f32 < f64, c64 < c128, real x complex -> complex of the wider precision; Python scalars
   (dt, coefficients) are weakly typed and never widen an array.  The operator arrays (exp term, ETDRK coefficients, derivative operator,
   dealiasing mask) are built at construction under the session default.  Without x64 a float64 request is canonicalised to float32.
   Part 2 - the zero state: N(0) of every documented nonlinear term, evaluated exactly (Nonlin.tla): zero for all but the forced /
   fed equations, so an unforced stepper maps zero to zero and a forced one to the phi_1-weighted forcing. *)
EXTENDS Nonlin

CONSTANTS Orders
VARIABLES x64, req, order, pc, cur, stage, hat
vars == <<x64, req, order, pc, cur, stage, hat>>

Prec(t) == IF t \in {"f32", "c64"} THEN 32 ELSE 64
IsC(t) == t \in {"c64", "c128"}
Mk(c, p) == IF c THEN (IF p = 32 THEN "c64" ELSE "c128") ELSE (IF p = 32 THEN "f32" ELSE "f64")
Join(a, b) == Mk(IsC(a) \/ IsC(b), Max2(Prec(a), Prec(b)))
Cplx(t) == Mk(TRUE, Prec(t))
Real(t) == Mk(FALSE, Prec(t))
Default == IF x64 THEN "f64" ELSE "f32"
OpDt == Cplx(Default)                 \* exp term, coefficients, derivative operator: complex of the session default
MaskDt == Default                     \* masks / scalings: real (or bool), never wider than the session default

Init == /\ x64 \in BOOLEAN /\ req \in {"f32", "f64"} /\ order \in Orders
        /\ pc = "request" /\ cur = req /\ stage = 0 /\ hat = "none"
U == UNCHANGED <<x64, req, order>>
Canonicalise == pc = "request" /\ cur' = (IF x64 THEN req ELSE "f32") /\ pc' = "physical" /\ UNCHANGED <<stage, hat>> /\ U
Fft == pc = "physical" /\ cur' = Cplx(cur) /\ hat' = Cplx(cur) /\ pc' = (IF order = 0 THEN "expmul" ELSE "stage") /\ stage' = 1 /\ U
ExpMul == pc = "expmul" /\ cur' = Join(cur, OpDt) /\ pc' = "fourier" /\ UNCHANGED <<stage, hat>> /\ U
\* one ETDRK stage: evaluate N on the current stage value (ifft, pointwise product with weak scalars, fft, mask), weight, combine with exp(cL) u^
NonlinIfft == pc = "stage" /\ cur' = Real(Join(cur, MaskDt)) /\ pc' = "nl_phys" /\ UNCHANGED <<stage, hat>> /\ U
NonlinProd == pc = "nl_phys" /\ cur' = cur /\ pc' = "nl_prod" /\ UNCHANGED <<stage, hat>> /\ U
NonlinFft == pc = "nl_prod" /\ cur' = Join(Cplx(cur), OpDt) /\ pc' = "nl_hat" /\ UNCHANGED <<stage, hat>> /\ U
CoefMul == pc = "nl_hat" /\ cur' = Join(cur, OpDt) /\ pc' = "weighted" /\ UNCHANGED <<stage, hat>> /\ U
Combine == /\ pc = "weighted" /\ cur' = Join(cur, Join(hat, OpDt))
           /\ IF stage < order THEN pc' = "stage" /\ stage' = stage + 1 ELSE pc' = "fourier" /\ stage' = stage
           /\ UNCHANGED hat /\ U
Ifft == pc = "fourier" /\ cur' = Real(cur) /\ pc' = "done" /\ UNCHANGED <<stage, hat>> /\ U
Next == Canonicalise \/ Fft \/ ExpMul \/ NonlinIfft \/ NonlinProd \/ NonlinFft \/ CoefMul \/ Combine \/ Ifft
Spec == Init /\ [][Next]_vars /\ WF_vars(Next)

\* results carry the session's default floating dtype, whatever was requested, and are never narrower than the (canonicalised) input
DefaultOK == (pc = "done") => cur = Default
NotNarrowerOK == (pc = "done") => Prec(cur) >= Prec(IF x64 THEN req ELSE "f32")
\* the Fourier-space result (step_fourier) is complex of the session default precision
FourierOK == (pc = "fourier") => cur = Cplx(Default)
\* every intermediate is at least as precise as the input and never exceeds the session default
RangeOK == (pc \notin {"request"}) => Prec(cur) <= Prec(Default)
StagesOK == stage <= Max2(order, 1)

\* ---------------------------------------------------------------- part 2: N(0), exactly
Terms == {"conv_mc_cons", "conv_mc_non", "conv_sc_cons", "conv_sc_non", "gradnorm_fix", "gradnorm_nofix", "poly_nofeed", "poly_feed",
          "general", "vort2d", "rot3d", "cahn_hilliard", "gray_scott"}
DimsOf(t) == IF t = "vort2d" THEN {2} ELSE IF t = "rot3d" THEN {3} ELSE {1, 2, 3}
Chan(t, d) == IF t \in {"conv_mc_cons", "conv_mc_non"} THEN d ELSE IF t = "rot3d" THEN 3 ELSE IF t = "gray_scott" THEN 2 ELSE 1
Zero(t, d) == [c \in 1..Chan(t, d) |-> FZero]
Bq == <<3, 2>>
OpZ(t, d) ==
    LET w == QOne
        Z == Zero(t, d) IN
    CASE t = "conv_mc_cons"   -> ConvMCCons(d, w, Bq, Z)
      [] t = "conv_mc_non"    -> ConvMCNon(d, w, Bq, Z)
      [] t = "conv_sc_cons"   -> ConvSCCons(d, w, Bq, Z)
      [] t = "conv_sc_non"    -> ConvSCNon(d, w, Bq, Z)
      [] t = "gradnorm_fix"   -> GradNorm(d, w, Bq, TRUE, Z)
      [] t = "gradnorm_nofix" -> GradNorm(d, w, Bq, FALSE, Z)
      [] t = "poly_nofeed"    -> Poly(d, << <<0, 1>>, <<1, 2>>, <<-1, 3>> >>, Z)
      [] t = "poly_feed"      -> Poly(d, << <<2, 5>>, <<1, 2>>, <<-1, 3>> >>, Z)
      [] t = "general"        -> General(d, w, << <<1, 2>>, <<-3, 2>>, <<2, 3>> >>, TRUE, Z)
      [] t = "vort2d"         -> Vort2d(w, Bq, Z)
      [] t = "rot3d"          -> Leray(3, w, Rot3dRaw(w, Z))
      [] t = "cahn_hilliard"  -> CahnHilliard(d, w, <<3, 4>>, Z)
      [] t = "gray_scott"     -> GrayScott(d, <<1, 5>>, <<3, 10>>, Z)
Fed == {"poly_feed", "gray_scott"}             \* constant source terms: the zero state is not an equilibrium of the reaction
ZeroTable == [t \in Terms |-> [d \in DimsOf(t) |-> \A c \in 1..Chan(t, d) : OpZ(t, d)[c] = FZero]]
ASSUME PrintT(<<"zero_table", ZeroTable>>)
ASSUME \A t \in Terms : \A d \in DimsOf(t) : ZeroTable[t][d] <=> (t \notin Fed)
=============================================================================
