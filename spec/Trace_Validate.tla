---------------------------- MODULE Trace_Validate ----------------------------
(* Validates the shape decisions observed at the __call__ boundary of steppers / repeated steppers / Poisson
   (hook events "Validate" recorded from any execution of the library, e.g. the repository's own test-suite):
   every observed call must have been decided as MC_Validate.Decide prescribes - accepted calls return the input shape,
   rejected calls raise ValueError. *)
EXTENDS MC_Validate, Json, IOUtils

Trace == ndJsonDeserialize(IOEnv.TRACE_FILE)
VARIABLES l
tvars == <<kind, D, N, C, shape, mutation, decision, l>>

TInit == l = 1 /\ kind = "stepper" /\ D = 1 /\ N = 1 /\ C = 1 /\ shape = << >> /\ mutation = "none" /\ decision = "accept"

Consume == /\ l <= Len(Trace)
           /\ LET e == Trace[l]
                  c == IF e.kind = "poisson" THEN 1 ELSE e.C
                  d == Decide(e.kind, c, e.D, e.N, e.shape)
              IN  /\ kind' = e.kind /\ D' = e.D /\ N' = e.N /\ C' = c /\ shape' = e.shape /\ mutation' = "observed"
                  /\ decision' = d
                  /\ IF d = "accept" THEN e.outcome = "returned" /\ e.out_shape = e.shape
                                     ELSE e.outcome = "ValueError"
           /\ l' = l + 1
TNext == Consume
TSpec == TInit /\ [][TNext]_tvars
=============================================================================
