---------------------------- MODULE MC_Spectrum ----------------------------
(* Radial spectrum of every real basis function of the grid, exactly.
   get_spectrum bins the stored half-spectrum modes by round(|k|) into bins 0..N//2 (half-open shells [b-1/2, b+1/2); modes outside
   the Nyquist sphere are dropped; in 1D the bins are the modes themselves).  Per stored mode s:
       amplitude quantity = |u^(s)| * DenRecon(s) / N^D                         (a for a cos(k.x + phi) on modes stored once)
       power quantity     = 1/2 |u^(s)|^2 * DenRecon(s) / N^(2D)                 (sums to half the mean square inside the sphere)
   "average" divides the bin sum by the number of stored modes in the bin. *)
EXTENDS Layout

CONSTANTS DNSet
VARIABLES D, N, kappa, trig, spec
vars == <<D, N, kappa, trig, spec>>

\* modulus of a Gaussian rational that is purely real or purely imaginary (true for the transform of a basis function)
AxisAbs(c) == IF QIsZero(c.im) THEN (IF QSign(c.re) < 0 THEN QNeg(c.re) ELSE c.re)
              ELSE (IF QSign(c.im) < 0 THEN QNeg(c.im) ELSE c.im)
BinOf(d, n, s) == IF d = 1 THEN s[1] ELSE Bin(d, n, s)
InSphere(d, n, s) == BinOf(d, n, s) <= n \div 2
BinCount(d, n, b) == Cardinality({ t \in Idx(d, n) : BinOf(d, n, t) = b })
Spectrum(d, n, h) ==
    LET ND == IPow(n, d)
        S == { s \in DOMAIN h : InSphere(d, n, s) }
        Bs == { BinOf(d, n, s) : s \in S }
        amp(s) == QMul(AxisAbs(h[s]), Q(DenRecon(d, n, s), ND))
        pow(s) == QMul(QMul(QHalf, CAbs2(h[s])), QMul(Q(DenRecon(d, n, s), ND), <<1, ND>>))
        sumA(b) == QSum({ s \in S : BinOf(d, n, s) = b }, amp)
        sumP(b) == QSum({ s \in S : BinOf(d, n, s) = b }, pow)
    IN  [ amp_sum |-> [b \in Bs |-> sumA(b)],
          pow_sum |-> [b \in Bs |-> sumP(b)],
          amp_avg |-> [b \in Bs |-> IF d = 1 THEN sumA(b) ELSE QDiv(sumA(b), QInt(BinCount(d, n, b)))],
          pow_avg |-> [b \in Bs |-> IF d = 1 THEN sumP(b) ELSE QDiv(sumP(b), QInt(BinCount(d, n, b)))] ]

Lo(n) == -(n \div 2)
Hi(n) == (n - 1) \div 2
Spec(d, n, k, t) == Spectrum(d, n, HalfOf(d, n, BasisTS(k, t)))
Init == /\ \E c \in DNSet : D = c \div 1000 /\ N = c % 1000
        /\ kappa = Tup(D, LAMBDA d : Lo(N)) /\ trig = "cos"
        /\ spec = Spec(D, N, kappa, trig)
NextMode(a) == /\ kappa[a] < Hi(N)
               /\ kappa' = Tup(D, LAMBDA d : IF d = a THEN kappa[d] + 1 ELSE kappa[d])
               /\ spec' = Spec(D, N, kappa', trig)
               /\ UNCHANGED <<D, N, trig>>
Toggle == trig = "cos" /\ trig' = "sin" /\ spec' = Spec(D, N, kappa, "sin") /\ UNCHANGED <<D, N, kappa>>
Next == (\E a \in 1..D : NextMode(a)) \/ Toggle

\* ---------------------------------------------------------------- properties
kw == VWrap(N, kappa)
SelfConjMode == VWrap(N, VNeg(kappa)) = kw
Inside == 4 * VSq(kw) < (2 * (N \div 2) + 1) * (2 * (N \div 2) + 1)          \* |k| < N//2 + 1/2
Vanishes == SelfConjMode /\ trig = "sin"
TheBin == IF D = 1 THEN Abs(kw[1]) ELSE CHOOSE b \in 0..(2 * N) : (b = 0 \/ (2*b-1)*(2*b-1) <= 4 * VSq(kw)) /\ 4 * VSq(kw) < (2*b+1)*(2*b+1)
\* each mode lands in exactly the bin round(|k|), or nowhere when outside the Nyquist sphere (or invisible on the grid)
OneBinOK == DOMAIN spec.amp_sum = (IF Inside /\ ~Vanishes THEN {TheBin} ELSE {})
\* amplitude a = 1 for a cos(k.x + phase) (the self-conjugate cosine has the full amplitude in one coefficient)
AmplitudeOK == (Inside /\ ~Vanishes) => spec.amp_sum[TheBin] = QOne
\* summed power = half the mean square (1/2 for a generic mode, 1 for DC / Nyquist cosines)
PowerOK == (Inside /\ ~Vanishes) => spec.pow_sum[TheBin] = QMul(QHalf, IF SelfConjMode THEN QOne ELSE QHalf)
\* average = sum / number of stored modes in the bin
AverageOK == \A b \in DOMAIN spec.amp_sum :
                (D > 1) => /\ QMul(spec.amp_avg[b], QInt(BinCount(D, N, b))) = spec.amp_sum[b]
                           /\ QMul(spec.pow_avg[b], QInt(BinCount(D, N, b))) = spec.pow_sum[b]
=============================================================================
