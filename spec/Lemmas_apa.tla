---------------------------- MODULE Lemmas_apa ----------------------------
(* Integer-arithmetic lemmas behind the dealiasing design, for EVERY grid size N >= 3 (Apalache / Z3, unbounded integers).
   TLC checks the same statements on the finite ranges of MC_Nonlin; this module removes the bound on N.
     K23(N) = floor(2/3 * (N div 2)) - 1     inclusive cutoff for quadratic terms (documented: dealiasing_fraction 2/3)
     K12(N) = floor(1/2 * (N div 2)) - 1     inclusive cutoff for cubic terms     (dealiasing_fraction 1/2)
   A product of m retained modes has wavenumbers up to m*K; it aliases back into the retained band iff m*K - N >= -K. *)
EXTENDS Integers

VARIABLES
    \* @type: Int;
    n,
    \* @type: Int;
    big

K23(m) == ((2 * (m \div 2)) \div 3) - 1
K12(m) == ((m \div 2) \div 2) - 1

Init == n \in Int /\ n >= 3 /\ big \in Int /\ big >= n
Next == UNCHANGED <<n, big>>

\* quadratic products of the 2/3-band never alias into the band; cubic products of the 1/2-band neither
AliasFreeAllN == 3 * K23(n) < n /\ 4 * K12(n) < n
\* the Nyquist mode is never retained, and the band is never wider than the resolved modes
NyquistFreeAllN == 2 * K23(n) < n /\ 2 * K12(n) < n /\ K23(n) <= (n - 1) \div 2
\* the cutoff is monotone in N (a finer grid never retains fewer modes) - checked as a step property over n -> n + 1
MonotoneAllN == K23(n + 1) >= K23(n) /\ K12(n + 1) >= K12(n)
\* the 2/3 rule is tight up to the documented "-1": one more mode would alias exactly when 2/3 (N div 2) is an integer and N is even
TightAllN == (3 * (K23(n) + 1) >= n) <=> (n % 2 = 0 /\ (2 * (n \div 2)) % 3 = 0)
\* ---------------------------------------------------------------- layout (C04) and mode blocks (C15), every N
\* the rfft layout of one axis stores N div 2 + 1 entries whose multiplicities (1 for DC and the Nyquist mode of an even grid, 2 otherwise)
\* add up to the N real degrees of freedom
Stored(m) == (m \div 2) + 1
Selfconj(m) == IF m % 2 = 0 THEN 2 ELSE 1
DofAllN == Selfconj(n) + 2 * (Stored(n) - Selfconj(n)) = n
\* get_modes_slices(n) applied to a grid with big >= n points: left block 0 .. LeftHi(n), right block big - n div 2 .. big - 1
LeftSize(m) == IF m % 2 = 0 THEN m \div 2 ELSE (m \div 2) + 1
RightSize(m) == m \div 2
\* the two blocks hold n indices together, do not overlap, and the left block fits below the Nyquist index of the big grid
BlocksAllN == /\ LeftSize(n) + RightSize(n) = n
              /\ LeftSize(n) - 1 < big - RightSize(n)
              /\ LeftSize(n) - 1 <= (big - 1) \div 2
\* fftfreq: index i of a grid with n points carries wavenumber i (i < (n+1) div 2) or i - n; the right block carries exactly the negative
\* wavenumbers -(n div 2) .. -1 whatever the size of the big grid, so a copied entry keeps its wavenumber
RightKeepsAllN == \A j \in {0, RightSize(n) - 1} : (big - RightSize(n) + j) - big = (n - RightSize(n) + j) - n
\* deliberately false (N = 6: K23 + 1 = 2, 3 * 2 = 6): must be refuted, used as the non-vacuity test of the harness
FalseLemma == 3 * (K23(n) + 1) < n
=============================================================================
