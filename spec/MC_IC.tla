---------------------------- MODULE MC_IC ----------------------------
(* The initial-condition generators of exponax.ic as pipelines acting on a record of established FACTS about the output.
   A configuration is  generator x option flags x offset kind x wrapper nesting x multi-channel copies x D.
   The machine follows the code:   Validate -> Draw -> Shape -> Offset -> ZeroMean -> StdOne -> MaxOne -> Wrap(1) .. Wrap(n) -> Multi -> done
   (normalize_ic applies zero-mean, unit-std, unit-max in this order; wrappers are applied inside-out; the multi-channel wrapper is
   outermost because it is not itself a BaseRandomICGenerator).  Every stage has gen/kill rules on the facts; numbers are exact rationals
   for fixed documented parameter instances (offset 3/2, offset range [1/2, 5/2], clamp limits (-1/2, 2), scales 3 and -2).
   None is <<0, 0>>. *)
EXTENDS Exact

CONSTANTS Gens,       \* subset of the generator names below
          MaxWrap,    \* maximal wrapper nesting depth
          Dims        \* set of spatial dimensions
VARIABLES gen, opt, wraps, multi, D, pc, wi, verdict, facts
vars == <<gen, opt, wraps, multi, D, pc, wi, verdict, facts>>

AllGens == {"WhiteNoise", "RandomTruncatedFourierSeries", "GaussianRandomField", "DiffusedNoise", "RandomDiscontinuities",
            "RandomGaussianBlobs", "RandomSineWaves1d"}
Wrappers == {"clamp", "scale3", "scalem2"}
None == <<0, 0>>
IsNone(q) == q[2] = 0
OffConst == <<3, 2>>
OffLo == <<1, 2>>
OffHi == <<5, 2>>
ClampLo == <<-1, 2>>
ClampHi == <<2, 1>>
ScaleOf(w) == IF w = "scale3" THEN <<3, 1>> ELSE <<-2, 1>>
Cutoff == 2

\* option record: zm / std / mx = the normalisation flags, off \in {"zero", "const", "range"}, flag = one_complement (blobs only)
Opts == [zm : BOOLEAN, std : BOOLEAN, mx : BOOLEAN, off : {"zero", "const", "range"}, flag : BOOLEAN]
HasNorm(g)   == g \in {"RandomTruncatedFourierSeries", "GaussianRandomField", "DiffusedNoise", "RandomDiscontinuities", "RandomSineWaves1d"}
HasOffset(g) == g \in {"RandomTruncatedFourierSeries", "RandomSineWaves1d"}
HasZmFlag(g) == g \in {"GaussianRandomField", "DiffusedNoise", "RandomDiscontinuities"}
\* one canonical option record per distinguishable constructor call
Relevant(g, o) ==
    /\ (~HasNorm(g)) => (~o.std /\ ~o.mx)
    /\ (~HasOffset(g)) => o.off = "zero"
    /\ (g = "RandomTruncatedFourierSeries") => (o.zm <=> o.off = "zero")       \* zero_mean is derived from the offset range
    /\ (g = "RandomSineWaves1d") => ~o.zm                                          \* no zero-mean step: the sines have zero mean
    /\ (~HasZmFlag(g) /\ ~HasOffset(g)) => ~o.zm
    /\ (g # "RandomGaussianBlobs") => ~o.flag
HasFun(g) == g \in {"RandomDiscontinuities", "RandomGaussianBlobs", "RandomSineWaves1d"}

Facts0 == [chan |-> 0, shape |-> FALSE, finite |-> FALSE, det |-> FALSE, fun |-> FALSE,
           mean |-> None, mlo |-> None, mhi |-> None, std |-> None, maxabs |-> None, min |-> None, max |-> None,
           band |-> 0 - 1, law |-> "none", lawdc |-> FALSE, range01 |-> FALSE]

RECURSIVE SeqsUpTo(_, _)
SeqsUpTo(S, n) == IF n = 0 THEN {<< >>} ELSE SeqsUpTo(S, n - 1) \cup { Append(s, x) : s \in SeqsUpTo(S, n - 1), x \in S }

Init == /\ gen \in Gens /\ opt \in Opts /\ Relevant(gen, opt)
        /\ wraps \in SeqsUpTo(Wrappers, MaxWrap)
        /\ multi \in {0, 2, 3}
        /\ D \in Dims
        /\ pc = "validate" /\ wi = 0 /\ verdict = "pending" /\ facts = Facts0

\* ---------------------------------------------------------------- the documented option-validity decision
Invalid(g, o, d) ==
    \/ (g = "RandomSineWaves1d" /\ d # 1)
    \/ (HasNorm(g) /\ o.std /\ o.mx)
    \/ (g \in {"GaussianRandomField", "DiffusedNoise", "RandomDiscontinuities"} /\ ~o.zm /\ o.std)
    \/ (HasOffset(g) /\ o.off # "zero" /\ o.std)

U == UNCHANGED <<gen, opt, wraps, multi, D>>
Validate == /\ pc = "validate"
            /\ IF Invalid(gen, opt, D) THEN verdict' = "reject" /\ pc' = "done" ELSE verdict' = "accept" /\ pc' = "draw"
            /\ UNCHANGED <<wi, facts>> /\ U
Draw == /\ pc = "draw"
        /\ facts' = [facts EXCEPT !.chan = 1, !.shape = TRUE, !.finite = TRUE, !.det = TRUE, !.fun = HasFun(gen)]
        /\ pc' = "shape" /\ UNCHANGED <<wi, verdict>> /\ U
Shape == /\ pc = "shape"
         /\ facts' = CASE gen \in {"RandomTruncatedFourierSeries", "RandomSineWaves1d"} -> [facts EXCEPT !.band = Cutoff]
                       [] gen = "GaussianRandomField" -> [facts EXCEPT !.law = "powerlaw", !.lawdc = TRUE]
                       [] gen = "DiffusedNoise"       -> [facts EXCEPT !.law = "diffused", !.lawdc = TRUE]
                       [] gen = "RandomGaussianBlobs" -> [facts EXCEPT !.range01 = TRUE]
                       [] OTHER -> facts
         /\ pc' = "offset" /\ UNCHANGED <<wi, verdict>> /\ U
Offset == /\ pc = "offset"
          /\ facts' = IF ~HasOffset(gen) THEN facts
                      ELSE IF opt.off = "zero" THEN [facts EXCEPT !.mean = QZero]
                      ELSE IF opt.off = "const" THEN [facts EXCEPT !.mean = OffConst]
                      ELSE [facts EXCEPT !.mlo = OffLo, !.mhi = OffHi]
          /\ pc' = "zeromean" /\ UNCHANGED <<wi, verdict>> /\ U
ZeroMean == /\ pc = "zeromean"
            /\ facts' = IF opt.zm THEN [facts EXCEPT !.mean = QZero, !.mlo = None, !.mhi = None, !.lawdc = FALSE] ELSE facts
            /\ pc' = "stdone" /\ UNCHANGED <<wi, verdict>> /\ U
\* division by a positive data-dependent number: a zero mean survives, any other mean / mean range / the unit DC ratio does not
Rescaled(f) == [f EXCEPT !.mean = IF f.mean = QZero THEN QZero ELSE None, !.mlo = None, !.mhi = None, !.std = None, !.maxabs = None,
                         !.lawdc = FALSE, !.range01 = FALSE]
StdOne == /\ pc = "stdone"
          /\ facts' = IF opt.std THEN [Rescaled(facts) EXCEPT !.std = QOne] ELSE facts
          /\ pc' = "maxone" /\ UNCHANGED <<wi, verdict>> /\ U
MaxOne == /\ pc = "maxone"
          /\ facts' = IF opt.mx THEN [Rescaled(facts) EXCEPT !.maxabs = QOne] ELSE facts
          /\ pc' = "wrap" /\ wi' = 0 /\ UNCHANGED <<verdict>> /\ U
\* wrappers, innermost first
QScaleOpt(s, q) == IF IsNone(q) THEN None ELSE QMul(s, q)
QAbs(q) == IF QSign(q) < 0 THEN QNeg(q) ELSE q
ApplyWrap(w, f) ==
    IF w = "clamp"
    THEN [f EXCEPT !.mean = None, !.mlo = None, !.mhi = None, !.std = None, !.maxabs = None, !.min = ClampLo, !.max = ClampHi,
                   !.fun = FALSE, !.lawdc = FALSE, !.range01 = FALSE]
    ELSE LET s == ScaleOf(w)
             neg == QSign(s) < 0
         IN  [f EXCEPT !.mean = QScaleOpt(s, f.mean),
                       !.mlo = IF neg THEN QScaleOpt(s, f.mhi) ELSE QScaleOpt(s, f.mlo),
                       !.mhi = IF neg THEN QScaleOpt(s, f.mlo) ELSE QScaleOpt(s, f.mhi),
                       !.std = QScaleOpt(QAbs(s), f.std), !.maxabs = QScaleOpt(QAbs(s), f.maxabs),
                       !.min = IF neg THEN QScaleOpt(s, f.max) ELSE QScaleOpt(s, f.min),
                       !.max = IF neg THEN QScaleOpt(s, f.min) ELSE QScaleOpt(s, f.max),
                       !.lawdc = FALSE, !.range01 = FALSE]
Wrap == /\ pc = "wrap" /\ wi < Len(wraps)
        /\ facts' = ApplyWrap(wraps[wi + 1], facts) /\ wi' = wi + 1
        /\ UNCHANGED <<pc, verdict>> /\ U
Multi == /\ pc = "wrap" /\ wi = Len(wraps)
         /\ facts' = IF multi = 0 THEN facts ELSE [facts EXCEPT !.chan = multi]
         /\ pc' = "done" /\ UNCHANGED <<wi, verdict>> /\ U
Next == Validate \/ Draw \/ Shape \/ Offset \/ ZeroMean \/ StdOne \/ MaxOne \/ Wrap \/ Multi
Spec == Init /\ [][Next]_vars /\ WF_vars(Next)

\* ---------------------------------------------------------------- properties
Normalised == pc = "wrap" /\ wi = 0
\* every accepted option combination establishes what its flags promise (at the end of normalize_ic)
PromiseOK == Normalised =>
    /\ opt.zm => facts.mean = QZero
    /\ opt.std => (facts.std = QOne /\ facts.mean = QZero)
    /\ opt.mx => facts.maxabs = QOne
    /\ (HasOffset(gen) /\ opt.off = "const" /\ ~opt.mx) => facts.mean = OffConst
    /\ (HasOffset(gen) /\ opt.off = "range" /\ ~opt.mx) => (facts.mlo = OffLo /\ facts.mhi = OffHi)
    /\ (HasOffset(gen) /\ opt.off = "zero") => facts.mean = QZero
\* the fact record never contradicts itself
ConsistentOK ==
    /\ (~IsNone(facts.min) /\ ~IsNone(facts.max)) => QLe(facts.min, facts.max)
    /\ (~IsNone(facts.mlo) \/ ~IsNone(facts.mhi)) => (~IsNone(facts.mlo) /\ ~IsNone(facts.mhi) /\ QLe(facts.mlo, facts.mhi) /\ IsNone(facts.mean))
    /\ (~IsNone(facts.maxabs) /\ ~IsNone(facts.mean)) => QLe(QAbs(facts.mean), facts.maxabs)
    /\ (~IsNone(facts.std) /\ ~IsNone(facts.maxabs)) => QLe(facts.std, facts.maxabs)
    /\ (~IsNone(facts.maxabs)) => QSign(facts.maxabs) > 0
    /\ (~IsNone(facts.std)) => QSign(facts.std) > 0
    /\ (~IsNone(facts.min) /\ ~IsNone(facts.mean)) => QLe(facts.min, facts.mean)
\* rejected configurations produce nothing; the decision is total and made before anything is drawn
RejectOK == /\ (verdict = "reject") => (facts = Facts0 /\ pc = "done")
            /\ (pc # "validate") => verdict \in {"accept", "reject"}
            /\ (verdict = "accept" /\ pc = "done") => (facts.shape /\ facts.finite /\ facts.det /\ facts.chan = (IF multi = 0 THEN 1 ELSE multi))
\* clamping reaches both limits whatever is inside; scaling afterwards maps the limits
ClampOK == (pc = "done" /\ verdict = "accept" /\ \E i \in 1..Len(wraps) : wraps[i] = "clamp") =>
              LET last == CHOOSE i \in 1..Len(wraps) : wraps[i] = "clamp" /\ \A j \in (i+1)..Len(wraps) : wraps[j] # "clamp"
                  S == FoldSet(LAMBDA j, acc : QMul(ScaleOf(wraps[j]), acc), QOne, (last+1)..Len(wraps))
              IN  /\ facts.min = (IF QSign(S) < 0 THEN QMul(S, ClampHi) ELSE QMul(S, ClampLo))
                  /\ facts.max = (IF QSign(S) < 0 THEN QMul(S, ClampLo) ELSE QMul(S, ClampHi))
                  /\ IsNone(facts.std) /\ IsNone(facts.maxabs) /\ IsNone(facts.mean) /\ ~facts.fun
\* spectral facts survive every affine wrapper: the band limit and the shaping law of the non-constant modes
SpectralOK == (pc = "done" /\ verdict = "accept") =>
              /\ (gen \in {"RandomTruncatedFourierSeries", "RandomSineWaves1d"}) => facts.band = Cutoff
              /\ (gen = "GaussianRandomField") => facts.law = "powerlaw"
              /\ (gen = "DiffusedNoise") => facts.law = "diffused"
=============================================================================
