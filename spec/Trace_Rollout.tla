---------------------------- MODULE Trace_Rollout ----------------------------
(* Trace specification for MC_Rollout: validates executions recorded from the real
   exponax.rollout / repeat / stack_sub_trajectories (one JSON file holding many traces).
   Each trace = [cfg |-> configuration record, events |-> sequence of events]; events are
     ScanStep (i, u_in, aux, u_out)  - one per call of the user's stepper function, logged by the stepper itself
     Done (out)                      - the value returned by the utility
     Rejected                        - the utility raised ValueError
   Start / WStart / Window / WFinish of the machine are not observable and are taken silently. *)
EXTENDS MC_Rollout, Json, IOUtils

Traces == JsonDeserialize(IOEnv.TRACE_FILE)

VARIABLES tid, l
tvars == <<cfg, pc, i, cur, trj, out, calls, tid, l>>

Ev == Traces[tid].events
IsEvent(name) == l <= Len(Ev) /\ Ev[l].ev = name /\ l' = l + 1 /\ UNCHANGED tid

TInit == /\ tid \in 1..Len(Traces)
         /\ l = 1
         /\ cfg = Traces[tid].cfg
         /\ pc = "start" /\ i = 0 /\ cur = cfg.u0 /\ trj = << >> /\ out = << >> /\ calls = 0

Silent == (Start \/ WStart \/ Window) /\ UNCHANGED <<tid, l>>

TScanStep == /\ IsEvent("ScanStep")
             /\ Ev[l].i = i
             /\ Ev[l].u_in = cur
             /\ Ev[l].aux = (IF cfg.takes_aux
                             THEN AuxLeaves(cfg.auxshape, IF cfg.constant_aux THEN 0 ELSE i)
                             ELSE << >>)
             /\ ScanStep
             /\ Ev[l].u_out = cur'

TDone == /\ IsEvent("Done")
         /\ (EmitInit \/ Finish \/ WFinish)
         /\ Ev[l].out = out'

TRejected == /\ IsEvent("Rejected")
             /\ WReject

TNext == Silent \/ TScanStep \/ TDone \/ TRejected
TSpec == TInit /\ [][TNext]_tvars

\* every invariant of the machine is evaluated along the validated traces as well
TInv == CarryOK /\ RolloutOK /\ RepeatOK /\ WindowsOK
=============================================================================
