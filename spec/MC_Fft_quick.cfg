INIT Init
NEXT Next
CONSTANTS
  DNSet = {1003,1004,1005,1006,1007,1008,1009,1010,1011,1012,1013,1016,1017,2003,2004,2005,2006,2007,2008,3003,3004,3005}
  AliasShifts = 1
INVARIANT SupportOK
INVARIANT NonTrivial
INVARIANT ValueOK
INVARIANT RoundTripOK
INVARIANT ParsevalOK
PROPERTY AliasInvariant
CHECK_DEADLOCK FALSE
