---------------------------- MODULE Session ----------------------------
(* The composed machine: a session of public API operations on one real state, kept exactly.
   State: per channel the canonical two-sided spectrum of the real field on the current grid (wavenumbers wrapped onto the grid, the
   Nyquist component of an even grid stored at -N/2; the field is  u(x_j) = Sum_p c[p] exp(i w p.x_j),  w = 1, L = 2 pi).
   Every action is one public call whose result is again a physical-space array; the machine predicts it exactly:
       Derive(d, m)   ex.derivative(u, L, order = m)[:, d]                 multiplier (i K_d)^m on the stored half-spectrum, then irfft
       Filter(c)      irfft( rfft(u) * low_pass_filter_mask(cutoff = c) )
       Apply(t)       irfft( nonlin_fun_t( rfft(u) ) )                       documented operator with dealiasing (Nonlin.tla)
       RK(t, p)       ETDRKp(dt, L = 0, nonlin_fun_t).step_fourier           with a vanishing linear operator the ETDRK coefficients are the
                                                                             z -> 0 limits of the tableau (Tableau.tla): a rational Runge-Kutta step
       Resample(M)    map_between_resolutions(u, M)                          Scale, ZeroOddballOld, CopyBlocks, Rescale, ZeroOddballNew
       Project        Leray projection of a vector field (D >= 2)
       Incomp         ex.spectral.make_incompressible(u)                     the same projection through the other public entry point
       Poisson(o)     ex.poisson.Poisson(D, L, N, order = o)(u)              u_p -> u_p / Sum p_d^2 (o = 2), - u_p / Sum p_d^4 (o = 4: the documented "without spatial mixing" operator), mean removed
       Oddball        irfft( rfft(u) * oddball_filter_mask )                 drops every mode with a Nyquist component (even grids)
       AddMode(b)     u + a real basis function (keeps the sessions from dying out)
       Advect(v)      ex.stepper.Advection(D, L, N, dt, velocity = v pi / (2 dt))(u)   a shift by quarter periods per axis: the multiplier (-i)^(v.k) is a
                                                                             Gaussian integer, so the exact linear step stays inside Q(i)
       AdvectN(v, n, how)  the same stepper applied n times through ex.repeat / ex.rollout (physical space between the steps) or as
                                                                             RepeatedStepper(stepper, n) (n sub-steps in Fourier space, no transform in between):
                                                                             the two differ exactly on Nyquist content, which the machine reproduces
   Observations (the state is unchanged, `last.obs` is the predicted return value):
       Interp(q)      FourierInterpolator(u, domain_extent = L)(L q / 4)     Sum_p c[p] i^(p.q); needs a Nyquist-free state unless the point is a grid point
       Spectrum       ex.get_spectrum(u, power = True)                       bin b collects 1/2 |c[p]|^2 of the modes with (2b-1)^2 <= 4 |p|^2 < (2b+1)^2, b <= N/2
       Metric         MSE, fourier_MSE (with a band), H1_MSE                 Sum |c[p]|^2 (times L^D), Sum_{low <= max|p_d| <= high}, Sum (1 + |p|^2) |c[p]|^2
       Coefs          ex.spectral.get_fourier_coefficients(u, round = None)  half-spectrum over the coef_extraction scaling
       Reject(m, how) a stepper called (eagerly / under jit / vmap / inside rollout / repeat / as RepeatedStepper / ForcedStepper) with a malformed state
                                                                             raises ValueError
   The variable `last` names the action taken; TLC's -simulate writes behaviours that are replayed call by call into the library with the
   whole state compared after every action.  Invariants: the state is always a real field of the current grid; Apply / RK results are
   confined to the retained band; Resample preserves the mean; Project yields a divergence-free field. *)
EXTENDS Nonlin, Tableau

CONSTANTS Kinds,        \* subset of {"s1", "s2", "v2", "s3", "v3"}: scalar 1D, scalar 2D, vector 2D, scalar 3D, vector 3D
          Sizes,        \* grid sizes, encoded D*1000 + N
          MaxNl,        \* bound on nonlinear evaluations per behaviour (keeps the rationals inside TLC's 32-bit integers)
          MaxRK,        \* largest Runge-Kutta order used in sessions (the wiring of orders 3, 4 is C02's business)
          Seeds,        \* number of distinct initial mode pairs per grid (the initial state is drawn from a small deterministic family)
          MaxLen
VARIABLES D, N, st, last, nl, len,
          fam      \* the family of operations the next step is taken from ("none": to be chosen); see Next
vars == <<D, N, st, last, nl, len, fam>>

w == QOne
Bq == QOne
Dt == <<1, 4>>
KindD(k) == IF k = "s1" THEN 1 ELSE IF k \in {"s3", "v3"} THEN 3 ELSE 2
IsVec == Len(st) > 1
C == Len(st)

\* ---------------------------------------------------------------- canonical forms
\* two-sided spectrum (canonical wavenumbers) of the real field irfft(h)
Canon(h) == TwoSidedOf(D, N, h)
CanonN(d, n, h) == TwoSidedOf(d, n, h)
Half(c) == HalfOf(D, N, c)
HMul(h, sym(_)) == LET f == [s \in DOMAIN h |-> CMul(sym(s), h[s])] IN [s \in {t \in DOMAIN f : ~CIsZero(f[t])} |-> f[s]]
MapCh(g(_)) == [c \in 1..Len(st) |-> g(st[c])]

\* ---------------------------------------------------------------- the operations on one channel
DeriveF(c, d, m) == Canon(HMul(Half(c), LAMBDA s : CPow(Cx(QZero, QInt(K(D, N, s)[d])), m)))
FilterF(c, cut)  == Canon([s \in {t \in DOMAIN Half(c) : LowPassBox(D, N, t, cut)} |-> Half(c)[s]])
VQuart(p)        == FoldSet(LAMBDA d, acc : p[d] * p[d] * p[d] * p[d] + acc, 0, DOMAIN p)
PoissonF(c, o)   == [p \in DOMAIN c \ {VZero(D)} |-> CScale(IF o = 2 THEN <<1, VSq(p)>> ELSE <<-1, VQuart(p)>>, c[p])]
OddballF(c)      == [p \in {q \in DOMAIN c : N % 2 = 1 \/ 2 * VMaxAbs(q) < N} |-> c[p]]
\* nonlinear terms: dealiased evaluation on true wavenumbers (the truncated input is Nyquist-free, so canonical = true wavenumbers)
Frac(t) == IF t \in {"poly3"} THEN <<1, 2>> ELSE <<2, 3>>
Cut(t) == DealiasCut(N, Frac(t)[1], Frac(t)[2])
StAddF(U, V) == [c \in 1..Len(U) |-> FAdd(U[c], V[c])]
OpS(t, U) ==
    CASE t = "conv_sc_cons"   -> ConvSCCons(D, w, Bq, U)
      [] t = "conv_sc_non"    -> ConvSCNon(D, w, Bq, U)
      [] t = "conv_mc_cons"   -> ConvMCCons(D, w, Bq, U)
      [] t = "conv_mc_non"    -> ConvMCNon(D, w, Bq, U)
      [] t = "gradnorm_fix"   -> GradNorm(D, w, Bq, TRUE, U)
      [] t = "poly2"          -> Poly(D, << <<0, 1>>, <<1, 2>>, <<-1, 1>> >>, U)
      [] t = "vort2d"         -> Vort2d(w, Bq, U)
      [] t = "vort2d_kolm"    -> Vort2d(w, Bq, U)
      [] t = "general"        -> General(D, w, << <<1, 2>>, <<-3, 2>>, <<2, 3>> >>, TRUE, U)
      [] t = "rot3d"          -> Leray(3, w, Rot3dRaw(w, U))
\* Kolmogorov forcing of the vorticity equation (injection mode 1, scale 1, w = 1):  - cos(x_1), added after the dealiased product
KolmF == << (<<0, 1>> :> CReal(<<-1, 2>>)) @@ (<<0, -1>> :> CReal(<<-1, 2>>)) >>
NOf(t, U) == LET conv == Trunc(OpS(t, Trunc(U, Cut(t))), Cut(t)) IN IF t = "vort2d_kolm" THEN StAddF(conv, KolmF) ELSE conv
ScalarTerms == {"conv_sc_cons", "conv_sc_non", "gradnorm_fix", "poly2", "general"} \cup (IF D = 2 THEN {"vort2d", "vort2d_kolm"} ELSE {})
VectorTerms == {"conv_mc_cons", "conv_mc_non"} \cup (IF D = 3 THEN {"rot3d"} ELSE {})
Terms == IF IsVec THEN VectorTerms ELSE ScalarTerms
\* Runge-Kutta step with the z -> 0 limits of the ETDRK tableau (every propagator is 1, every coefficient its value at z = 0)
Lim(name) == SeriesCoef(Coef(name), 0)
StAdd(U, V) == [c \in 1..Len(U) |-> FAdd(U[c], V[c])]
StScale(q, U) == [c \in 1..Len(U) |-> FScale(CReal(q), U[c])]
StZero == [c \in 1..Len(st) |-> FZero]
RECURSIVE Stages(_, _, _, _)
\* vals: sequence of stage states (vals[1] = u); returns the final state of scheme p
Stages(t, p, j, vals) ==
    IF j > Len(Scheme(p)) THEN vals[Len(vals)]
    ELSE LET sg == Scheme(p)[j]
             nvals == [i \in 1..Len(vals) |-> NOf(t, vals[i])]
             term(m) == LET tm == sg.terms[m]
                            combo == FoldSet(LAMBDA i, acc : StAdd(StScale(QInt(tm[2][i]), nvals[i]), acc), StZero, DOMAIN tm[2])
                        IN  StScale(QMul(Dt, Lim(tm[1])), combo)
             nlsum == FoldSet(LAMBDA m, acc : StAdd(term(m), acc), StZero, DOMAIN sg.terms)
         IN  Stages(t, p, j + 1, Append(vals, StAdd(vals[sg.base + 1], nlsum)))
RKF(t, p, U) == Stages(t, p, 1, <<U>>)
\* map_between_resolutions on the half-spectrum of one channel
ResampleH(M, h) ==
    LET nmin == Min2(N, M)
        h1 == [s \in DOMAIN h |-> CScale(<<1, IPow(N, D)>>, h[s])]
        h2 == IF M > N /\ N % 2 = 0 THEN [s \in {t \in DOMAIN h1 : Oddball(D, N, t)} |-> h1[s]] ELSE h1
        src == { s \in DOMAIN h2 : InBlocks(D, N, nmin, s) }
        tgt(s) == BlockMap(D, N, M, nmin, s)
        h3 == [t \in { tgt(s) : s \in src } |-> CScale(QInt(IPow(M, D)), h2[CHOOSE s \in src : tgt(s) = t])]
    IN  IF N > M /\ M % 2 = 0 THEN [s \in {t \in DOMAIN h3 : Oddball(D, M, t)} |-> h3[s]] ELSE h3
ResampleF(c, M) == IF M = N THEN c ELSE CanonN(D, M, ResampleH(M, Half(c)))

\* ---------------------------------------------------------------- exact linear steps: advection over quarter periods
NegIPow(n) == LET r == n % 4 IN IF r = 0 THEN COne ELSE IF r = 1 THEN Cx(QZero, QInt(-1)) ELSE IF r = 2 THEN CInt(-1) ELSE CI
IPowI(n)   == LET r == n % 4 IN IF r = 0 THEN COne ELSE IF r = 1 THEN CI ELSE IF r = 2 THEN CInt(-1) ELSE Cx(QZero, QInt(-1))
\* exp(dt lambda(k)) for lambda = - i c.k with c dt = v pi / 2 (w = 1): (-i)^(v.k) at the stored wavenumber (the Nyquist wavenumber of the
\* halved axis is stored as + N/2, on the other axes as - N/2: the multiplier follows the stored value, as the library's operator does)
ShiftSym(v, s) == NegIPow(VDot(v, K(D, N, s)))
AdvectH(h, v, n) == HMul(h, LAMBDA s : CPow(ShiftSym(v, s), n))
AdvectF(c, v) == Canon(AdvectH(Half(c), v, 1))
RECURSIVE AdvectRep(_, _, _)
AdvectRep(c, v, n) == IF n = 0 THEN c ELSE AdvectRep(AdvectF(c, v), v, n - 1)        \* n calls, a real field in between
AdvectSub(c, v, n) == Canon(AdvectH(Half(c), v, n))                                   \* n sub-steps in Fourier space
ShiftVecs == IF D = 1 THEN {<<1>>, <<2>>, <<3>>} ELSE IF D = 2 THEN {<<1, 0>>, <<0, 3>>, <<1, 1>>, <<2, 1>>, <<3, 2>>} ELSE {<<1, 0, 0>>, <<0, 1, 2>>, <<3, 2, 1>>}
\* norms square the denominators: they are only formed on states with small rationals (TLC's integers are 32 bit)
SmallQ(q) == Abs(q[1]) <= 60 /\ q[2] <= 60
Small(U) == \A c \in 1..Len(U) : \A p \in DOMAIN U[c] : SmallQ(U[c][p].re) /\ SmallQ(U[c][p].im)
MeanSqC(U) == [c \in 1..Len(U) |-> QSum(DOMAIN U[c], LAMBDA p : CAbs2(U[c][p]))]       \* per channel: the root-type metrics add the roots of the channels
MeanSq(U) == QSumSeq(MeanSqC(U))

\* ---------------------------------------------------------------- observations
InterpAt(c, q) == CSum(DOMAIN c, LAMBDA p : CMul(c[p], IPowI(VDot(p, q))))
QueryPts == IF D = 1 THEN {<<-3>>, <<1>>, <<2>>, <<5>>} ELSE IF D = 2 THEN {<<1, 0>>, <<-3, 2>>, <<5, 1>>, <<2, 2>>, <<3, -1>>} ELSE {<<1, 2, 3>>, <<-1, 5, 0>>, <<2, 2, 2>>}
BinP(p) == LET q == 4 * VSq(p) IN CHOOSE b \in 0..(2 * N) : (b = 0 \/ (2*b-1)*(2*b-1) <= q) /\ q < (2*b+1)*(2*b+1)
SpecOf(c) == [b \in 1..((N \div 2) + 1) |-> QSum({p \in DOMAIN c : BinP(p) = b - 1}, LAMBDA p : QMul(QHalf, CAbs2(c[p])))]
InBand(p, lo, hi) == VMaxAbs(p) >= lo /\ VMaxAbs(p) <= hi
BandSq(U, lo, hi) == QSumSeq([c \in 1..Len(U) |-> QSum({p \in DOMAIN U[c] : InBand(p, lo, hi)}, LAMBDA p : CAbs2(U[c][p]))])
GradSq(U) == QSumSeq([c \in 1..Len(U) |-> QSum(DOMAIN U[c], LAMBDA p : QMul(QInt(VSq(p)), CAbs2(U[c][p])))])
CoefOf(c) == LET h == Half(c) IN [s \in DOMAIN h |-> CScale(Q(DenCoef(D, N, s), IPow(N, D)), h[s])]

\* ---------------------------------------------------------------- initial states and actions
Lo(n) == -(n \div 2)
Hi(n) == (n - 1) \div 2
ModeBox(d, n) == LET R == Lo(n)..Hi(n) IN IF d = 1 THEN {<<a>> : a \in R} ELSE IF d = 2 THEN R \X R ELSE R \X R \X R
\* the sampled basis function as a canonical spectrum of the grid
BasisOn(d, n, p, tr) == CanonN(d, n, HalfOf(d, n, BasisTS(p, tr)))
Amp == {<<1, 1>>, <<-1, 2>>}

\* a small deterministic family of initial mode pairs: the i-th pair of the grid, spread over the mode box (Nyquist and negative modes included)
NthMode(d, n, i) == Tup(d, LAMBDA a : Lo(n) + ((7 * i + 3 * a + i * a) % n))
Init == /\ \E k \in Kinds, e \in Sizes :
              /\ D = KindD(k) /\ e \div 1000 = D /\ N = e % 1000
              /\ \E i \in 1..Seeds, tr \in {"cos", "sin"}, a \in Amp :
                    LET p == NthMode(D, N, i)
                        q == NthMode(D, N, i + 2)
                        f == FAdd(BasisOn(D, N, p, tr), FScale(CReal(a), BasisOn(D, N, q, "cos")))
                        g == FAdd(BasisOn(D, N, q, tr), FScale(CReal(a), BasisOn(D, N, p, "sin")))
                        h == FAdd(BasisOn(D, N, NthMode(D, N, i + 1), "cos"), FScale(CReal(a), BasisOn(D, N, q, "sin")))
                    IN  st = IF k = "v2" THEN <<f, g>> ELSE IF k = "v3" THEN <<f, g, h>> ELSE <<f>>
        /\ last = [op |-> "init"] /\ nl = 0 /\ len = 0 /\ fam = "none"

Step(newst, lab, cost) == /\ st' = newst /\ last' = lab /\ nl' = nl + cost /\ len' = len + 1 /\ fam' = "none" /\ UNCHANGED <<D, N>>
Derive == \E d \in 1..D, m \in 1..3 : ~IsVec /\ Step(MapCh(LAMBDA c : DeriveF(c, d, m)), [op |-> "derive", d |-> d, m |-> m], 0)
Filter == \E cut \in 0..(N \div 2) : Step(MapCh(LAMBDA c : FilterF(c, cut)), [op |-> "filter", cut |-> cut], 0)
Apply  == \E t \in Terms : nl + 1 <= MaxNl /\ Step(NOf(t, st), [op |-> "apply", term |-> t], 1)
\* via = "stepper": the same step through a public stepper class whose linear operator vanishes (Burgers with zero diffusivity, ...)
RK     == \E t \in Terms, p \in 1..MaxRK, via \in {"etdrk", "stepper"} : nl + p <= MaxNl /\ Step(RKF(t, p, st), [op |-> "rk", term |-> t, p |-> p, via |-> via], p)
Resample == \E e \in Sizes : /\ e \div 1000 = D /\ e % 1000 # N
                             /\ st' = [c \in 1..Len(st) |-> ResampleF(st[c], e % 1000)]
                             /\ N' = e % 1000 /\ last' = [op |-> "resample", M |-> e % 1000]
                             /\ len' = len + 1 /\ fam' = "none" /\ UNCHANGED <<D, nl>>
Project == IsVec /\ (\A c \in 1..Len(st) : \A p \in DOMAIN st[c] : 2 * VMaxAbs(p) < N) /\ Step(Leray(D, w, st), [op |-> "leray"], 0)
NyqFree == \A c \in 1..Len(st) : \A p \in DOMAIN st[c] : 2 * VMaxAbs(p) < N
Incomp  == IsVec /\ NyqFree /\ Step(Leray(D, w, st), [op |-> "incomp"], 0)
\* the quartic symbol puts fourth powers into the denominators: it draws on the same budget as the nonlinear evaluations (32-bit rationals)
Poisson == \E o \in {2, 4} : LET cost == IF o = 4 THEN 1 ELSE 0 IN
               nl + cost <= MaxNl /\ Step(MapCh(LAMBDA c : PoissonF(c, o)), [op |-> "poisson", o |-> o], cost)
OddballA == N % 2 = 0 /\ Step(MapCh(OddballF), [op |-> "oddball"], 0)
AddMode == \E p \in {NthMode(D, N, i) : i \in 1..3}, tr \in {"cos", "sin"}, ch \in 1..Len(st) :
              Step([c \in 1..Len(st) |-> IF c = ch THEN FAdd(st[c], BasisOn(D, N, p, tr)) ELSE st[c]],
                   [op |-> "addmode", p |-> p, trig |-> tr, ch |-> ch], 0)
Advect == \E v \in ShiftVecs : Step(MapCh(LAMBDA c : AdvectF(c, v)), [op |-> "advect", v |-> v], 0)
AdvectN == \E v \in ShiftVecs, n \in 2..3, how \in {"repeat", "rollout", "substeps"} :
              Step(MapCh(LAMBDA c : IF how = "substeps" THEN AdvectSub(c, v, n) ELSE AdvectRep(c, v, n)), [op |-> "advectn", v |-> v, n |-> n, how |-> how], 0)
\* ForcedStepper(advection stepper)(u, f): the step of u + dt f, with a real basis function as forcing (dt = 1/2)
DtA == <<1, 2>>
Forced == \E v \in ShiftVecs, p \in {NthMode(D, N, i) : i \in 1..2}, tr \in {"cos", "sin"} :
              Step(MapCh(LAMBDA c : AdvectF(FAdd(c, FScale(CReal(DtA), BasisOn(D, N, p, tr))), v)), [op |-> "forced", v |-> v, p |-> p, trig |-> tr], 0)
Observe(lab) == Step(st, lab, 0)
\* a malformed call: the stepper is handed a state whose shape is not <<C, N, ..., N>>; it raises ValueError (whether called eagerly, compiled, mapped or
\* from inside a scan) and the session's state is what it was.  MC_Validate.tla decides which shapes are malformed; here the mutations are named.
Mutations == {"extra_channel", "no_channel_axis", "axis_plus_one", "all_axes_plus_one", "batch_axis", "missing_spatial_axis"}
Reject == \E m \in Mutations, how \in {"eager", "jit", "vmap", "rollout", "repeat", "repeated", "forced"}, target \in {"advection", "burgers"} :
              Observe([op |-> "reject", mut |-> m, how |-> how, target |-> target, obs |-> "ValueError"])
Interp   == \E q \in QueryPts : (NyqFree \/ N % 4 = 0) /\ Observe([op |-> "interp", q |-> q, obs |-> [c \in 1..Len(st) |-> InterpAt(st[c], q)]])
Spectrum == Small(st) /\ Observe([op |-> "spectrum", obs |-> [c \in 1..Len(st) |-> SpecOf(st[c])]])
Metric   == \E lo \in 0..2, hi \in {1, (N \div 2) - 1, (N \div 2) + 1} : lo <= hi /\ Small(st) /\
                Observe([op |-> "metric", lo |-> lo, hi |-> hi, obs |-> [mse |-> MeanSq(st), chan |-> MeanSqC(st), band |-> BandSq(st, lo, hi), grad |-> GradSq(st)]])
Coefs    == Observe([op |-> "coefs", obs |-> [c \in 1..Len(st) |-> CoefOf(st[c])]])
\* Every step is taken in two halves: first a family of operations is chosen (all enabled families equally likely in TLC's simulation mode,
\* and only the chosen family's successors have to be computed), then one member of the family is executed.
Families == {"advect", "advectn", "forced", "reject", "interp", "spectrum", "metric", "coefs", "derive", "filter", "apply", "rk", "resample", "leray", "incomp", "poisson", "oddball", "addmode"}
FamGuard(f) == CASE f \in {"leray", "incomp"} -> IsVec /\ NyqFree
                 [] f = "derive"   -> ~IsVec
                 [] f = "apply"    -> nl + 1 <= MaxNl
                 [] f = "rk"       -> nl + 1 <= MaxNl
                 [] f = "oddball"  -> N % 2 = 0
                 [] f = "interp"   -> NyqFree \/ N % 4 = 0
                 [] f \in {"spectrum", "metric"} -> Small(st)
                 [] OTHER -> TRUE
FamAct(f) == CASE f = "reject" -> Reject [] f = "forced" -> Forced [] f = "advect" -> Advect [] f = "advectn" -> AdvectN [] f = "interp" -> Interp [] f = "spectrum" -> Spectrum [] f = "metric" -> Metric
               [] f = "coefs" -> Coefs [] f = "derive" -> Derive [] f = "filter" -> Filter [] f = "apply" -> Apply [] f = "rk" -> RK
               [] f = "resample" -> Resample [] f = "leray" -> Project [] f = "incomp" -> Incomp [] f = "poisson" -> Poisson
               [] f = "oddball" -> OddballA [] f = "addmode" -> AddMode
Pick == fam = "none" /\ len < MaxLen /\ \E f \in Families : FamGuard(f) /\ fam' = f /\ UNCHANGED <<D, N, st, last, nl, len>>
Exec == fam # "none" /\ FamAct(fam)
Next == Pick \/ Exec
Spec == Init /\ [][Next]_vars

\* ---------------------------------------------------------------- properties
\* the state is a real field of the current grid: canonical wavenumbers, Hermitian partners present (the Nyquist component is its own)
RealOK == \A c \in 1..Len(st) : /\ TSRealN(N, st[c])
                                /\ \A p \in DOMAIN st[c] : VWrap(N, p) = p /\ Len(p) = D
\* a nonlinear evaluation / Runge-Kutta increment never leaves the retained band and never touches the Nyquist mode
\* (the Kolmogorov forcing is injected after the dealiased product and is not subject to the cutoff: it is taken off first)
BandOK == (last.op = "apply") => LET U == IF last.term = "vort2d_kolm" THEN [c \in 1..Len(st) |-> FSub(st[c], KolmF[c])] ELSE st IN
                                 \A c \in 1..Len(U) : \A p \in DOMAIN U[c] : VMaxAbs(p) <= Cut(last.term) /\ 2 * VMaxAbs(p) < N
\* filtering is idempotent and removes everything above the cutoff
FilterOK == (last.op = "filter") => \A c \in 1..Len(st) : /\ \A p \in DOMAIN st[c] : VMaxAbs(p) <= last.cut
                                                          /\ FilterF(st[c], last.cut) = st[c]
\* projection: divergence free, idempotent
Div(U) == FSumD(D, LAMBDA d : FD(w, d, U[d]))
ProjectOK == (last.op = "leray" /\ \A c \in 1..Len(st) : \A p \in DOMAIN st[c] : 2 * VMaxAbs(p) < N) =>
                 (DOMAIN Div(st) = {} /\ Leray(D, w, st) = st)
\* differentiation removes the mean
\* the Poisson solution has no mean and solves the equation: - Laplace^(o/2) u = f - mean f  (checked on the pre-state through the action)
PoissonOK == [][ (len' = len + 1 /\ last'.op = "poisson") =>
                    \A c \in 1..Len(st) : /\ VZero(D) \notin DOMAIN st'[c]
                                           /\ \A p \in DOMAIN st[c] \ {VZero(D)} :
                                                 CScale(QInt(IF last'.o = 2 THEN VSq(p) ELSE -VQuart(p)), st'[c][p]) = st[c][p] ]_vars
OddballOK == (last.op = "oddball") => NyqFree
DeriveOK == (last.op = "derive") => \A c \in 1..Len(st) : VZero(D) \notin DOMAIN st[c]
\* the interpolant of a real field is real
InterpOK == (last.op = "interp") => \A c \in 1..Len(st) : QIsZero(last.obs[c].im)
\* Parseval for the radial spectrum: the bins add up to half the mean square of the part inside the Nyquist sphere (everything in 1D)
SpectrumOK == (last.op = "spectrum") => \A c \in 1..Len(st) :
                  QSumSeq(last.obs[c]) = QSum({p \in DOMAIN st[c] : BinP(p) <= N \div 2}, LAMBDA p : QMul(QHalf, CAbs2(st[c][p])))
\* a partition of the wavenumber range into bands adds up to the whole
MetricOK == (last.op = "metric") => /\ QAdd(BandSq(st, 0, last.hi), BandSq(st, last.hi + 1, N)) = last.obs.mse
                                    /\ QLe(last.obs.band, last.obs.mse)
\* pure advection never amplifies, and preserves the norm of Nyquist-free fields; on those, sub-stepping in Fourier space equals repeated calls
AdvectOK == [][ (len' = len + 1 /\ last'.op \in {"advect", "advectn"}) =>
                   /\ Small(st) => QLe(MeanSq(st'), MeanSq(st))
                   /\ NyqFree => /\ Small(st) => MeanSq(st') = MeanSq(st)
                                 /\ (last'.op = "advectn") => st' = MapCh(LAMBDA c : AdvectSub(c, last'.v, last'.n)) /\ st' = MapCh(LAMBDA c : AdvectRep(c, last'.v, last'.n)) ]_vars
\* translation equivariance of every nonlinear term: shifting by one quarter period along each axis commutes with the evaluation
\* (the Kolmogorov forcing depends on x_1: that term is equivariant under shifts along the other axis only)
ShiftAx(U, A) == [c \in 1..Len(U) |-> [p \in DOMAIN U[c] |-> CMul(NegIPow(FoldSet(LAMBDA d, acc : p[d] + acc, 0, A)), U[c][p])]]
EquivOK == [][ (len' = len + 1 /\ last'.op = "apply" /\ NyqFree) =>
                  LET A == IF last'.term = "vort2d_kolm" THEN {1} ELSE 1..D IN NOf(last'.term, ShiftAx(st, A)) = ShiftAx(st', A) ]_vars
=============================================================================
