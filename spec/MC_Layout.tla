---------------------------- MODULE MC_Layout ----------------------------
(* Walker over the half-spectrum layout: one state per (D, N, stored index) carrying the row of every
   documented table at that index.  Actions move along an axis or to the Hermitian partner.
   Decides the table part of C04 (and the mask tables used by C03/C15/C16/C17). *)
EXTENDS Layout, TLC

CONSTANTS DNSet        \* set of configurations encoded as 1000*D + N
VARIABLES D, N, s, row
vars == <<D, N, s, row>>

Row(d, n, t) ==
    [ k        |-> K(d, n, t),
      conj     |-> IF OnSelfLine(d, n, t) THEN Conj(d, n, t) ELSE t,
      selfline |-> OnSelfLine(d, n, t),
      weight   |-> Weight(d, n, t),
      nyq      |-> HasNyq(d, n, t),
      den_norm |-> DenNorm(d, n, t),
      den_recon|-> DenRecon(d, n, t),
      den_coef |-> DenCoef(d, n, t),
      oddball  |-> Oddball(d, n, t),
      boxmin   |-> VMaxAbs(K(d, n, t)),         \* low-pass (axis separate) keeps t  <=>  cutoff >= boxmin
      sqk      |-> SqK(d, n, t),                \* low-pass (spherical) keeps t      <=>  cutoff^2 >= sqk
      bin      |-> Bin(d, n, t),
      cut23    |-> DealiasCut(n, 2, 3),
      cut12    |-> DealiasCut(n, 1, 2),
      kept23   |-> Kept(d, n, t, 2, 3),
      kept12   |-> Kept(d, n, t, 1, 2),
      blocks   |-> { m \in 2..n : InBlocks(d, n, m, t) },     \* block sizes m whose mode blocks contain t
      unit_re  |-> TwoSidedOf(d, n, (t :> COne)),             \* what ifft returns for the unit spectrum at t
      unit_im  |-> TwoSidedOf(d, n, (t :> CI))
    ]

Init == /\ \E c \in DNSet : D = c \div 1000 /\ N = c % 1000
        /\ s = VZero(D)
        /\ row = Row(D, N, s)

StepAxis(a) == /\ s[a] + 1 < AxisLen(D, N, a)
               /\ s' = Tup(D, LAMBDA d : IF d = a THEN s[d] + 1 ELSE s[d])
               /\ row' = Row(D, N, s')
               /\ UNCHANGED <<D, N>>

Conjugate == /\ OnSelfLine(D, N, s)
             /\ s' = Conj(D, N, s)
             /\ row' = Row(D, N, s')
             /\ UNCHANGED <<D, N>>

Next == (\E a \in 1..D : StepAxis(a)) \/ Conjugate

\* ------------------------------------------------------------------ invariants
TypeOK == s \in Idx(D, N)

\* the Hermitian partner on the self-conjugate lines is stored, is an involution, and carries -k (mod N)
ConjOK == OnSelfLine(D, N, s) =>
            /\ Conj(D, N, s) \in Idx(D, N)
            /\ OnSelfLine(D, N, Conj(D, N, s))
            /\ Conj(D, N, Conj(D, N, s)) = s
            /\ VWrap(N, VNeg(K(D, N, s))) = VWrap(N, K(D, N, Conj(D, N, s)))

\* StoreIdx inverts K
StoreOK == /\ StoreIdx(D, N, K(D, N, s)) = <<s, FALSE>>
           /\ (~OnSelfLine(D, N, s)) => StoreIdx(D, N, VNeg(K(D, N, s)))[2]
           /\ StoreIdx(D, N, VNeg(K(D, N, s)))[1] = (IF OnSelfLine(D, N, s) THEN Conj(D, N, s) ELSE s)

\* the real degrees of freedom of the half spectrum are exactly N^D (checked once per configuration)
DofCount == (s = VZero(D)) =>
    FoldSet(LAMBDA t, acc : acc + (IF SelfConj(D, N, t) THEN 1 ELSE IF OnSelfLine(D, N, t) THEN 1 ELSE 2),
            0, Idx(D, N)) = IPow(N, D)

\* documented relations between the three scaling modes
ScalingOK == /\ row.den_recon = row.den_norm * (IF s[D] = 0 \/ IsNyqAxis(D, N, s, D) THEN 1 ELSE 2)
             /\ row.den_norm = 1
             /\ row.den_coef = row.den_recon *
                   FoldSet(LAMBDA d, acc : acc * (IF s[d] = 0 \/ IsNyqAxis(D, N, s, d) THEN 1 ELSE 2), 1, 1..(D-1))
             /\ (row.weight = 2) <=> (row.den_recon = 2)

\* ifft of a single (possibly non-Hermitian) entry: real field supported on +-k; imaginary parts on
\* self-conjugate modes are invisible, entries on self-lines are shared with the partner
UnitOK == /\ TSRealN(N, row.unit_re) /\ TSRealN(N, row.unit_im)
          /\ DOMAIN row.unit_re \subseteq {VWrap(N, K(D, N, s)), VWrap(N, VNeg(K(D, N, s)))}
          /\ (SelfConj(D, N, s) => DOMAIN row.unit_im = {})
          /\ DOMAIN row.unit_re # {}

\* masks: oddball = complement of Nyquist lines on even grids, everything on odd grids; dealiasing never keeps Nyquist
MaskOK == /\ row.oddball <=> ~row.nyq
          /\ row.kept23 => ~row.nyq
          /\ row.kept12 => row.kept23
          /\ row.kept23 => row.oddball
          /\ \A c \in 0..(N \div 2) : LowPassBall(D, N, s, c) => LowPassBox(D, N, s, c)

\* bins: unique, |k|^2 is never on a bin boundary
BinOK == LET q == 4 * row.sqk
             b == row.bin
         IN  /\ \A c \in 0..(2 * N) : ((c = 0 \/ (2*c-1)*(2*c-1) <= q) /\ q < (2*c+1)*(2*c+1)) => c = b
             /\ \A c \in 0..(2 * N) : q # (2*c+1)*(2*c+1)

\* mode blocks of size m: every index lies in at most one block; the blocks hold exactly the wavenumbers that a
\* grid with m points stores (its own Nyquist line included), so they tile the whole layout for m = N;
\* the block position in a grid with m points carries the same wavenumber.
BlocksOK == \A m \in 2..N :
              /\ BlockCount(D, N, m, s) <= 1
              /\ (InBlocks(D, N, m, s) <=> BlockCount(D, N, m, s) = 1)
              /\ (InBlocks(D, N, m, s) <=>
                     (s[D] <= m \div 2 /\ \A d \in 1..(D-1) : Wrap(m, K(D, N, s)[d]) = K(D, N, s)[d]))
              /\ (m = N => InBlocks(D, N, m, s))
              /\ (InBlocks(D, N, m, s) =>
                     /\ BlockMap(D, N, m, m, s) \in Idx(D, m)
                     /\ K(D, m, BlockMap(D, N, m, m, s)) = K(D, N, s))
=============================================================================
