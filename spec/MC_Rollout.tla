---------------------------- MODULE MC_Rollout ----------------------------
(* The trajectory utilities of exponax as a state machine: rollout / repeat (lax.scan over the stepper with
   optional auxiliary input, constant or per-step, optional prepended initial state), stack_sub_trajectories
   (sliding windows) and the key chain of build_ic_set.

   The stepper is an injective integer bookkeeping function applied leaf-wise,
       leaf j of the state:   v  |->  3*v + A + j        (A = value of the aux input, 0 without aux)
   so that order of application, order of aux consumption and leaf identity are all visible in the values.
   A state pytree is modelled by the sequence of its leaves in canonical order. *)
EXTENDS Integers, Sequences, TLC

CONSTANTS MaxN,          \* step counts 0..MaxN
          MaxT           \* trajectory lengths 1..MaxT for the window machine

Ops    == {"rollout", "repeat"}
Shapes == {"leaf", "pair", "nested"}       \* array | (a, b) | {"p": a, "q": (b, c)}
AuxShapes == {"leaf", "pair"}              \* array | (a1, a2) with A = a1 + 7*a2
NLeaves(sh) == IF sh = "leaf" THEN 1 ELSE IF sh = "pair" THEN 2 ELSE 3

VARIABLES cfg,     \* [op, n, include_init, takes_aux, constant_aux, shape, auxshape, u0, T, sub_len]
          pc, i, cur, trj, out, calls

vars == <<cfg, pc, i, cur, trj, out, calls>>

\* ------------------------------------------------------------------ the bookkeeping stepper
F(u, A) == [j \in 1..Len(u) |-> 3 * u[j] + A + j]
\* per-step aux leaves: step t (0-based) carries (10 + t) resp. (10 + t, 2*t + 1); the constant aux is step 0's
AuxLeaves(sh, t) == IF sh = "leaf" THEN <<10 + t>> ELSE <<10 + t, 2 * t + 1>>
AuxVal(a) == IF Len(a) = 1 THEN a[1] ELSE a[1] + 7 * a[2]
AuxAt(c, t) == IF ~c.takes_aux THEN 0
               ELSE IF c.constant_aux THEN AuxVal(AuxLeaves(c.auxshape, 0))
               ELSE AuxVal(AuxLeaves(c.auxshape, t))

\* reference semantics: the naive loop
RECURSIVE Iter(_, _, _)
Iter(c, u, k) == IF k = 0 THEN u ELSE F(Iter(c, u, k - 1), AuxAt(c, k - 1))
NaiveTrj(c) == [k \in 1..c.n |-> Iter(c, c.u0, k)]

U0(sh, seed) == [j \in 1..NLeaves(sh) |-> seed + 2 * j]

ScanCfgs == { [op |-> o, n |-> n, include_init |-> ii, takes_aux |-> ta, constant_aux |-> ca, shape |-> sh,
               auxshape |-> ash, u0 |-> U0(sh, sd), T |-> 0, sub_len |-> 0] :
              o \in Ops, n \in 0..MaxN, ii \in BOOLEAN, ta \in BOOLEAN, ca \in BOOLEAN, sh \in Shapes,
              ash \in AuxShapes, sd \in {0, 5} }
\* canonical: flags that cannot matter are fixed
ScanCfgsC == { c \in ScanCfgs : /\ (c.op = "repeat" => ~c.include_init)
                                /\ (~c.takes_aux => (c.constant_aux /\ c.auxshape = "leaf")) }
WinCfgs == { [op |-> "windows", n |-> 0, include_init |-> FALSE, takes_aux |-> FALSE, constant_aux |-> TRUE,
              shape |-> sh, auxshape |-> "leaf", u0 |-> U0(sh, 1), T |-> T, sub_len |-> l] :
             sh \in Shapes, T \in 1..MaxT, l \in 1..(MaxT + 1) }

Init == /\ cfg \in ScanCfgsC \cup WinCfgs
        /\ pc = "start" /\ i = 0 /\ cur = cfg.u0 /\ trj = << >> /\ out = << >> /\ calls = 0

\* ------------------------------------------------------------------ rollout / repeat
Start == /\ pc = "start" /\ cfg.op \in Ops
         /\ pc' = "scan"
         /\ UNCHANGED <<cfg, i, cur, trj, out, calls>>

ScanStep == /\ pc = "scan" /\ i < cfg.n
            /\ cur' = F(cur, AuxAt(cfg, i))
            /\ trj' = IF cfg.op = "rollout" THEN Append(trj, cur') ELSE trj
            /\ i' = i + 1
            /\ calls' = calls + 1
            /\ UNCHANGED <<cfg, pc, out>>

EmitInit == /\ pc = "scan" /\ i = cfg.n /\ cfg.op = "rollout" /\ cfg.include_init
            /\ out' = <<cfg.u0>> \o trj
            /\ pc' = "done"
            /\ UNCHANGED <<cfg, i, cur, trj, calls>>

Finish == /\ pc = "scan" /\ i = cfg.n /\ ~(cfg.op = "rollout" /\ cfg.include_init)
          /\ out' = IF cfg.op = "rollout" THEN trj ELSE <<cur>>
          /\ pc' = "done"
          /\ UNCHANGED <<cfg, i, cur, trj, calls>>

\* ------------------------------------------------------------------ stack_sub_trajectories
\* the trajectory is the naive T-step trajectory of the bookkeeping stepper without aux
WinTrj(c) == [k \in 1..c.T |-> Iter(c, c.u0, k)]

WStart == /\ pc = "start" /\ cfg.op = "windows" /\ cfg.sub_len <= cfg.T
          /\ trj' = WinTrj(cfg)
          /\ pc' = "win"
          /\ UNCHANGED <<cfg, i, cur, out, calls>>

WReject == /\ pc = "start" /\ cfg.op = "windows" /\ cfg.sub_len > cfg.T
           /\ pc' = "rejected"
           /\ UNCHANGED <<cfg, i, cur, trj, out, calls>>

Window == /\ pc = "win" /\ i < cfg.T - cfg.sub_len + 1
          /\ out' = Append(out, SubSeq(trj, i + 1, i + cfg.sub_len))
          /\ i' = i + 1
          /\ UNCHANGED <<cfg, pc, cur, trj, calls>>

WFinish == /\ pc = "win" /\ i = cfg.T - cfg.sub_len + 1
           /\ pc' = "done"
           /\ UNCHANGED <<cfg, i, cur, trj, out, calls>>

Next == Start \/ ScanStep \/ EmitInit \/ Finish \/ WStart \/ WReject \/ Window \/ WFinish

\* ------------------------------------------------------------------ properties
\* the scan carries the i-fold application and has called the stepper exactly i times
CarryOK == (cfg.op \in Ops /\ pc \in {"scan", "done"}) => (cur = Iter(cfg, cfg.u0, i) /\ calls = i)

\* final results equal the naive loop
RolloutOK == (pc = "done" /\ cfg.op = "rollout") =>
               /\ Len(out) = cfg.n + (IF cfg.include_init THEN 1 ELSE 0)
               /\ out = (IF cfg.include_init THEN <<cfg.u0>> ELSE << >>) \o NaiveTrj(cfg)
               /\ \A k \in 1..Len(out) : Len(out[k]) = NLeaves(cfg.shape)
RepeatOK == (pc = "done" /\ cfg.op = "repeat") =>
               /\ out = <<Iter(cfg, cfg.u0, cfg.n)>>
               /\ (cfg.n = 0 => out = <<cfg.u0>>)
               /\ (cfg.n > 0 => out[1] = NaiveTrj(cfg)[cfg.n])
\* windows: every contiguous window, in order, exactly T - l + 1 of them; too long a window is rejected
WindowsOK == /\ (pc = "done" /\ cfg.op = "windows") =>
                  /\ Len(out) = cfg.T - cfg.sub_len + 1
                  /\ \A w \in 1..Len(out) : /\ Len(out[w]) = cfg.sub_len
                                            /\ \A m \in 1..cfg.sub_len : out[w][m] = trj[w + m - 1]
             /\ (pc = "rejected") => cfg.sub_len > cfg.T
\* aux inputs are consumed in order (per-step) or held (constant): a per-step aux makes a difference exactly when n >= 2
AuxOrderOK == (cfg.op \in Ops /\ cfg.takes_aux /\ ~cfg.constant_aux /\ pc = "done" /\ cfg.n >= 2) =>
                 Iter(cfg, cfg.u0, cfg.n) # Iter([cfg EXCEPT !.constant_aux = TRUE], cfg.u0, cfg.n)
Termination == <>(pc \in {"done", "rejected"})
Spec == Init /\ [][Next]_vars /\ WF_vars(Next)
=============================================================================
