---------------------------- MODULE Symbols ----------------------------
(* Linear symbols of the documented PDEs, as term lists with symbolic real parameters:
       lambda(k) = Sum_t  value(t.c) * w^(t.w) * t.m          w = 2 pi / L,   t.m \in Z[i] evaluated at the integer wavenumber k
   t.c = <<parameter name, i, j>> names a real parameter of the stepper (entry i (,j) of a vector/matrix; 0 = scalar).
   Transcribed from the PDEs in the docstrings, not from the code:
     Advection            u_t + c . grad u = 0
     Diffusion            u_t = div(A grad u)
     AdvectionDiffusion   u_t + c . grad u = div(A grad u)
     Dispersion           u_t = xi . (grad (.) grad (.) grad) u          |  mixing: u_t = xi . grad(Laplace u)
     HyperDiffusion       u_t = - zeta ((grad(.)grad) . (grad(.)grad)) u |  mixing: u_t = - zeta Laplace(Laplace u)
     GeneralLinear        u_t = Sum_j a_j (1 . grad^j) u                 (also Normalized / Difficulty after conversion)
     Wave                 h_tt = c^2 Laplace h   (state (h, v = h_t)); table entry: |k|^2
*)
EXTENDS Layout

Ik(k, d) == Cx(QZero, QInt(k[d]))                     \* i * k_d
IkPow(k, d, j) == CPow(Ik(k, d), j)                   \* (i k_d)^j
SumD(D, f(_)) == CSum(1..D, f)
NegSq(k) == CInt(-VSq(k))                             \* symbol of the Laplacian / w^2

Term(c, w, m) == [c |-> c, w |-> w, m |-> m]

AdvectionTerms(D, k)  == { Term(<<"velocity", d, 0>>, 1, CNeg(Ik(k, d))) : d \in 1..D }
DiffusionTerms(D, k)  == { Term(<<"diffusivity", a, b>>, 2, CInt(-(k[a] * k[b]))) : a \in 1..D, b \in 1..D }
DispersionTerms(D, k, mix) ==
    IF mix THEN { Term(<<"dispersivity", d, 0>>, 3, CMul(Ik(k, d), NegSq(k))) : d \in 1..D }
           ELSE { Term(<<"dispersivity", d, 0>>, 3, IkPow(k, d, 3)) : d \in 1..D }
HyperDiffusionTerms(D, k, mix) ==
    IF mix THEN { Term(<<"hyper_diffusivity", 0, 0>>, 4, CNeg(CMul(NegSq(k), NegSq(k)))) }
           ELSE { Term(<<"hyper_diffusivity", 0, 0>>, 4, CNeg(SumD(D, LAMBDA d : IkPow(k, d, 4)))) }
GeneralLinearTerms(D, k, J) == { Term(<<"a", j, 0>>, j, SumD(D, LAMBDA d : IkPow(k, d, j))) : j \in 0..J }

Classes == {"Advection", "Diffusion", "AdvectionDiffusion", "Dispersion", "HyperDiffusion", "GeneralLinear", "Wave"}
HasMixFlag(cls) == cls \in {"Dispersion", "HyperDiffusion"}

Terms(cls, mix, D, k, J) ==
    CASE cls = "Advection"          -> AdvectionTerms(D, k)
      [] cls = "Diffusion"          -> DiffusionTerms(D, k)
      [] cls = "AdvectionDiffusion" -> AdvectionTerms(D, k) \cup DiffusionTerms(D, k)
      [] cls = "Dispersion"         -> DispersionTerms(D, k, mix)
      [] cls = "HyperDiffusion"     -> HyperDiffusionTerms(D, k, mix)
      [] cls = "GeneralLinear"      -> GeneralLinearTerms(D, k, J)
      [] cls = "Wave"               -> {}

\* value of a term list at rational parameters: par(c) \in Q, w \in Q
EvalTerms(T, par(_), w) == CSum(T, LAMBDA t : CScale(QMul(par(t.c), QPow(w, t.w)), t.m))

\* classes whose symbol is purely imaginary for every k and all real parameters (reversible, norm preserving)
PureImag(T)  == \A t \in T : QIsZero(t.m.re)
\* classes whose symbol is real
PureReal(T)  == \A t \in T : QIsZero(t.m.im)
=============================================================================
