---------------------------- MODULE Symbols ----------------------------
(* Linear symbols of the documented PDEs, as term lists with symbolic real parameters:
       lambda(k) = Sum_t  value(t.c) * w^(t.w) * t.m          w = 2 pi / L,   t.m \in Z[i] evaluated at the integer wavenumber k
   t.c = <<parameter name, i, j>> names a real parameter of the stepper (entry i (,j) of a vector/matrix; 0 = scalar).
   Transcribed from the PDEs in the docstrings, not from the code:
     Advection            u_t + c . grad u = 0
     Diffusion            u_t = div(A grad u)
     AdvectionDiffusion   u_t + c . grad u = div(A grad u)
     Dispersion           u_t = xi . (grad (.) grad (.) grad) u          |  mixing: u_t = xi . grad(Laplace u)
     HyperDiffusion       u_t = - zeta ((grad(.)grad) . (grad(.)grad)) u |  mixing: u_t = - zeta Laplace(Laplace u)
     GeneralLinear        u_t = Sum_j a_j (1 . grad^j) u                 (also Normalized / Difficulty after conversion)
     Wave                 h_tt = c^2 Laplace h   (state (h, v = h_t)); table entry: |k|^2
*)
EXTENDS Layout

Ik(k, d) == Cx(QZero, QInt(k[d]))                     \* i * k_d
IkPow(k, d, j) == CPow(Ik(k, d), j)                   \* (i k_d)^j
SumD(D, f(_)) == CSum(1..D, f)
NegSq(k) == CInt(-VSq(k))                             \* symbol of the Laplacian / w^2

Term(c, w, m) == [c |-> c, w |-> w, m |-> m]

AdvectionTerms(D, k)  == { Term(<<"velocity", d, 0>>, 1, CNeg(Ik(k, d))) : d \in 1..D }
DiffusionTerms(D, k)  == { Term(<<"diffusivity", a, b>>, 2, CInt(-(k[a] * k[b]))) : a \in 1..D, b \in 1..D }
DispersionTerms(D, k, mix) ==
    IF mix THEN { Term(<<"dispersivity", d, 0>>, 3, CMul(Ik(k, d), NegSq(k))) : d \in 1..D }
           ELSE { Term(<<"dispersivity", d, 0>>, 3, IkPow(k, d, 3)) : d \in 1..D }
HyperDiffusionTerms(D, k, mix) ==
    IF mix THEN { Term(<<"hyper_diffusivity", 0, 0>>, 4, CNeg(CMul(NegSq(k), NegSq(k)))) }
           ELSE { Term(<<"hyper_diffusivity", 0, 0>>, 4, CNeg(SumD(D, LAMBDA d : IkPow(k, d, 4)))) }
GeneralLinearTerms(D, k, J) == { Term(<<"a", j, 0>>, j, SumD(D, LAMBDA d : IkPow(k, d, j))) : j \in 0..J }

\* spectral differential operators (ex.derivative, build_laplace_operator, build_gradient_inner_product_operator, Poisson):
\*   d^m/dx_d^m  has symbol (i w k_d)^m ; parameter <<"axis", d, m>> selects one of them
DerivativeTerms(D, k, J) == { Term(<<"axis", d, m>>, m, IkPow(k, d, m)) : d \in 1..D, m \in 1..J }
Classes == {"Advection", "Diffusion", "AdvectionDiffusion", "Dispersion", "HyperDiffusion", "GeneralLinear", "Wave", "Derivative"}

\* Linear parts of the semi-linear steppers (the L of u_t = L u + N(u)), from the documented PDEs.  A parameter name may be a
\* product of constructor arguments ("diffusivity*gamma"); "one" is the constant 1.
\*   Burgers                    nu Lap
\*   KortewegDeVries            nu Lap - a3 1.(grad(.)grad(.)grad) [or - a3 1.grad Lap] - zeta (grad(.)grad).(grad(.)grad) [or - zeta Lap Lap]
\*   KuramotoSivashinsky(+Cons) - psi1 Lap - psi2 (grad(.)grad).(grad(.)grad)
\*   NavierStokes* / Kolmogorov* nu Lap + drag
\*   FisherKPP  nu Lap + r ;  AllenCahn  nu Lap + c1 ;  CahnHilliard  nu c1 Lap - nu gamma Lap Lap
\*   SwiftHohenberg  r - (kc + Lap)^2 ;  GrayScott  nu_1 Lap (channel 0), nu_2 Lap (channel 1)
SemiClasses == {"Burgers", "KortewegDeVries", "KuramotoSivashinsky", "KuramotoSivashinskyConservative", "NavierStokes",
                "FisherKPP", "AllenCahn", "CahnHilliard", "SwiftHohenberg", "GrayScott"}
\* variant: small integer; Dispersion/HyperDiffusion: 1 = spatial mixing; KdV: bit 0 = advect_over_diffuse, bit 1 = diffuse_over_diffuse;
\* GrayScott: channel
Variants(cls) == IF cls \in {"Dispersion", "HyperDiffusion", "GrayScott"} THEN {0, 1}
                 ELSE IF cls = "KortewegDeVries" THEN {0, 1, 2, 3} ELSE {0}
P0(name) == <<name, 0, 0>>
Sum4(D, k) == SumD(D, LAMBDA d : IkPow(k, d, 4))
Sum3(D, k) == SumD(D, LAMBDA d : IkPow(k, d, 3))
Sum1(D, k) == SumD(D, LAMBDA d : Ik(k, d))
BiLap(k) == CMul(NegSq(k), NegSq(k))
SemiTerms(cls, v, D, k) ==
    CASE cls = "Burgers" -> { Term(P0("diffusivity"), 2, NegSq(k)) }
      [] cls = "KortewegDeVries" ->
            { Term(P0("diffusivity"), 2, NegSq(k)),
              Term(P0("dispersivity"), 3, CNeg(IF v % 2 = 1 THEN CMul(Sum1(D, k), NegSq(k)) ELSE Sum3(D, k))),
              Term(P0("hyper_diffusivity"), 4, CNeg(IF v \div 2 = 1 THEN BiLap(k) ELSE Sum4(D, k))) }
      [] cls \in {"KuramotoSivashinsky", "KuramotoSivashinskyConservative"} ->
            { Term(P0("second_order_scale"), 2, CNeg(NegSq(k))), Term(P0("fourth_order_scale"), 4, CNeg(Sum4(D, k))) }
      [] cls = "NavierStokes" -> { Term(P0("diffusivity"), 2, NegSq(k)), Term(P0("drag"), 0, COne) }
      [] cls = "FisherKPP"    -> { Term(P0("diffusivity"), 2, NegSq(k)), Term(P0("reactivity"), 0, COne) }
      [] cls = "AllenCahn"    -> { Term(P0("diffusivity"), 2, NegSq(k)), Term(P0("first_order_coefficient"), 0, COne) }
      [] cls = "CahnHilliard" -> { Term(P0("diffusivity*first_order_coefficient"), 2, NegSq(k)),
                                   Term(P0("diffusivity*gamma"), 4, CNeg(BiLap(k))) }
      [] cls = "SwiftHohenberg" -> { Term(P0("reactivity"), 0, COne), Term(P0("critical_number*critical_number"), 0, CInt(-1)),
                                     Term(P0("critical_number"), 2, CScale(QInt(-2), NegSq(k))), Term(P0("one"), 4, CNeg(BiLap(k))) }
      [] cls = "GrayScott" -> { Term(P0(IF v = 0 THEN "diffusivity_1" ELSE "diffusivity_2"), 2, NegSq(k)) }

Terms(cls, v, D, k, J) ==
    CASE cls = "Advection"          -> AdvectionTerms(D, k)
      [] cls = "Diffusion"          -> DiffusionTerms(D, k)
      [] cls = "AdvectionDiffusion" -> AdvectionTerms(D, k) \cup DiffusionTerms(D, k)
      [] cls = "Dispersion"         -> DispersionTerms(D, k, v = 1)
      [] cls = "HyperDiffusion"     -> HyperDiffusionTerms(D, k, v = 1)
      [] cls = "GeneralLinear"      -> GeneralLinearTerms(D, k, J)
      [] cls = "Wave"               -> {}
      [] cls = "Derivative"         -> DerivativeTerms(D, k, J)
      [] OTHER                      -> SemiTerms(cls, v, D, k)

\* value of a term list at rational parameters: par(c) \in Q, w \in Q
EvalTerms(T, par(_), w) == CSum(T, LAMBDA t : CScale(QMul(par(t.c), QPow(w, t.w)), t.m))

\* classes whose symbol is purely imaginary for every k and all real parameters (reversible, norm preserving)
PureImag(T)  == \A t \in T : QIsZero(t.m.re)
\* classes whose symbol is real
PureReal(T)  == \A t \in T : QIsZero(t.m.im)
=============================================================================
