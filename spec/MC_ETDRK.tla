---------------------------- MODULE MC_ETDRK ----------------------------
(* The ETDRK stage machine.  One behaviour = one step of order p:
       Begin ; ( EvalN(j) ; FormStage(j+1) )* ; Done
   Two interpretations of the nonlinear term run through the same wiring:
     mode "sym": N_j are free symbols; a value is [u |-> R, n |-> <<R, ...>>] = u-coefficient and the coefficients of dt*N_0..dt*N_{p-1}
     mode "lin": N(x) = (w/dt) x (linear test equation); a value is a polynomial in w over R: <<R_0, R_1, ...>> (stability function)
   The invariants state that the wiring equals the canonical Cox-Matthews form, the consistency (row-sum) conditions,
   removability of the singularity at z = 0, the classical z -> 0 limit and the order conditions. *)
EXTENDS Tableau

CONSTANTS Orders
VARIABLES p, mode, pc, j, vals, nvals
vars == <<p, mode, pc, j, vals, nvals>>
\* vals[i] = stage i-1 (vals[1] = u), nvals[i] = N(stage i-1) in mode lin ; in mode sym N_{i-1} is the i-th unit symbol

\* ---------------------------------------------------------------- mode sym
SymU(pp) == [u |-> ROne, n |-> [i \in 1..pp |-> RZero]]
SymN(pp, i) == [u |-> RZero, n |-> [m \in 1..pp |-> IF m = i THEN ROne ELSE RZero]]
SymAdd(a, b) == [u |-> RAdd(a.u, b.u), n |-> [i \in DOMAIN a.n |-> RAdd(a.n[i], b.n[i])]]
SymScale(r, a) == [u |-> RMul(r, a.u), n |-> [i \in DOMAIN a.n |-> RMul(r, a.n[i])]]
SymZero(pp) == [u |-> RZero, n |-> [i \in 1..pp |-> RZero]]
\* ---------------------------------------------------------------- mode lin: polynomials in w, degree <= p, as sequences of length p+1
LinU(pp) == [i \in 1..(pp + 1) |-> IF i = 1 THEN ROne ELSE RZero]
LinAdd(a, b) == [i \in DOMAIN a |-> RAdd(a[i], b[i])]
LinScale(r, a) == [i \in DOMAIN a |-> RMul(r, a[i])]
LinShift(a) == [i \in DOMAIN a |-> IF i = 1 THEN RZero ELSE a[i - 1]]       \* multiply by w  (dt * N(x) = w x)
LinZero(pp) == [i \in 1..(pp + 1) |-> RZero]

Add(a, b)   == IF mode = "sym" THEN SymAdd(a, b) ELSE LinAdd(a, b)
Scale(r, a) == IF mode = "sym" THEN SymScale(r, a) ELSE LinScale(r, a)
Zero        == IF mode = "sym" THEN SymZero(Max2(p, 1)) ELSE LinZero(p)
NOf(i)      == IF mode = "sym" THEN SymN(Max2(p, 1), i) ELSE nvals[i]          \* dt * N(stage i-1)

Init == /\ p \in Orders /\ mode \in {"sym", "lin"}
        /\ pc = "begin" /\ j = 0
        /\ vals = << >> /\ nvals = << >>

Begin == /\ pc = "begin"
         /\ vals' = << IF mode = "sym" THEN SymU(Max2(p, 1)) ELSE LinU(p) >>
         /\ pc' = IF p = 0 THEN "form" ELSE "eval"
         /\ j' = 1
         /\ UNCHANGED <<p, mode, nvals>>

\* evaluate the nonlinear term at stage j-1
EvalN == /\ pc = "eval"
         /\ nvals' = Append(nvals, IF mode = "sym" THEN SymN(Max2(p, 1), j) ELSE LinShift(vals[j]))
         /\ pc' = "form"
         /\ UNCHANGED <<p, mode, j, vals>>

\* form stage j from the scheme's row j
FormStage ==
    /\ pc = "form"
    /\ LET st == Scheme(p)[j]
           lin(m) == LET tm == st.terms[m]
                         combo == FoldSet(LAMBDA i, acc : Add(Scale(RMono(QInt(tm[2][i]), 0, 0),
                                                                   IF mode = "sym" THEN SymN(Max2(p, 1), i) ELSE nvals[i]), acc),
                                          Zero, DOMAIN tm[2])
                     IN  Scale(Coef(tm[1]), combo)
           nl == FoldSet(LAMBDA m, acc : Add(lin(m), acc), Zero, DOMAIN st.terms)
       IN  vals' = Append(vals, Add(Scale(Prop(st.prop), vals[st.base + 1]), nl))
    /\ IF j = Max2(p, 1) THEN pc' = "done" /\ j' = j ELSE pc' = "eval" /\ j' = j + 1
    /\ UNCHANGED <<p, mode, nvals>>

Next == Begin \/ EvalN \/ FormStage
Spec == Init /\ [][Next]_vars /\ WF_vars(Next)

\* ------------------------------------------------------------------ properties
Result == vals[Len(vals)]
Termination == <>(pc = "done")
\* exactly p evaluations of the nonlinear term, one per stage
CountOK == (pc = "done") => (Len(nvals) = p /\ Len(vals) = Max2(p, 1) + 1)

\* (sym) every stage i is  E^(2c_i) u + Sum_j a_ij dt N_j  with  Sum_j a_ij = c_i phi1(c_i z)   [exact on constant N]
RowSumOK == (mode = "sym") =>
    \A i \in 2..Len(vals) :
        LET tc == TwoC(p)[i - 1]
            rs == RSumSeq(vals[i].n)
        IN  /\ vals[i].u = (IF tc = 1 THEN RE ELSE RE2)
            /\ (p >= 1 => rs = (IF tc = 1 THEN P1 ELSE F1))
\* (sym) stage i only uses N_0 .. N_{i-2}  (explicit scheme)
ExplicitOK == (mode = "sym") => \A i \in 2..Len(vals) : \A m \in DOMAIN vals[i].n : (m >= i => vals[i].n[m] = RZero)
\* (sym) final weights in canonical form
WeightsOK == (mode = "sym" /\ pc = "done") =>
    /\ (p = 1 => Result.n = <<F1>>)
    /\ (p = 2 => Result.n = <<RSub(F1, F2), F2>>)
    /\ (p = 3 => Result.n = <<B1, RScale(QInt(4), B2h), B3>>)
    /\ (p = 4 => Result.n = <<B1, RScale(QInt(2), B2h), RScale(QInt(2), B2h), B3>>)
\* (sym) the singularity at z = 0 is removable in every coefficient, and the z -> 0 limit is the classical tableau
Classical(pp) == CASE pp = 1 -> << <<1, 1>> >>
                   [] pp = 2 -> << <<1, 2>>, <<1, 2>> >>
                   [] pp = 3 -> << <<1, 6>>, <<2, 3>>, <<1, 6>> >>
                   [] pp = 4 -> << <<1, 6>>, <<1, 3>>, <<1, 3>>, <<1, 6>> >>
                   [] pp = 0 -> << >>
LimitOK == (mode = "sym") =>
    /\ \A i \in 2..Len(vals) : \A m \in DOMAIN vals[i].n : Regular(vals[i].n[m])
    /\ (pc = "done" /\ p >= 1) => \A m \in 1..p : SeriesCoef(Result.n[m], 0) = Classical(p)[m]
\* (sym) the z -> 0 limit satisfies the classical (nonlinear) order conditions of Runge-Kutta methods up to order p
ButcherOK == (mode = "sym" /\ pc = "done" /\ p >= 2) =>
    LET S == 1..p                                                   \* stage i evaluates N at vals[i]; c_1 = 0
        c(i) == IF i = 1 THEN QZero ELSE <<TwoC(p)[i - 1], 2>>
        cn(i) == Q(c(i)[1], c(i)[2])
        a(i, m) == IF i = 1 THEN QZero ELSE SeriesCoef(vals[i].n[m], 0)
        b(m) == SeriesCoef(Result.n[m], 0)
        S1(f(_)) == QSum(S, f)
        S2(f(_, _)) == QSum(S \X S, LAMBDA ij : f(ij[1], ij[2]))
        S3(f(_, _, _)) == QSum(S \X S \X S, LAMBDA t : f(t[1], t[2], t[3]))
    IN  /\ S1(LAMBDA i : b(i)) = QOne
        /\ S1(LAMBDA i : QMul(b(i), cn(i))) = <<1, 2>>
        /\ \A i \in S : S1(LAMBDA m : a(i, m)) = cn(i)
        /\ (p >= 3) => /\ S1(LAMBDA i : QMul(b(i), QMul(cn(i), cn(i)))) = <<1, 3>>
                       /\ S2(LAMBDA i, m : QMul(b(i), QMul(a(i, m), cn(m)))) = <<1, 6>>
        /\ (p >= 4) => /\ S1(LAMBDA i : QMul(b(i), QPow(cn(i), 3))) = <<1, 4>>
                       /\ S2(LAMBDA i, m : QMul(QMul(b(i), cn(i)), QMul(a(i, m), cn(m)))) = <<1, 8>>
                       /\ S2(LAMBDA i, m : QMul(b(i), QMul(a(i, m), QMul(cn(m), cn(m))))) = <<1, 12>>
                       /\ S3(LAMBDA i, m, n : QMul(QMul(b(i), a(i, m)), QMul(a(m, n), cn(n)))) = <<1, 24>>
\* (lin) the stability function R_p(z, w) agrees with exp(z + w) through total degree p, and has no pole at z = 0
OrderOK == (mode = "lin" /\ pc = "done") =>
    \A wd \in 0..p :
        /\ Regular(Result[wd + 1])
        /\ \A zd \in 0..(p - wd) : SeriesCoef(Result[wd + 1], zd) = <<1, Fact(wd) * Fact(zd)>>
\* (lin) order 0 is the pure linear propagation
Order0OK == (p = 0 /\ pc = "done") => (IF mode = "sym" THEN Result.u = RE2 ELSE Result = <<RE2>>)
=============================================================================
